(* Reader.v — the reader as a state machine over call histories (property C07).
   The only state a read call can observe is the header-row option; everything else is a
   function [sem] of the file (instantiated, per format, by the sheet models of C01–C04 / C08).
   Also: the owned range derived from the borrowed one (xlsx/xlsb worksheet_range), the
   worksheet_range_at default method, and the dispatch of the auto-detected reader.
   Definitions only; proofs in Reader_proofs.v. *)
From Calamine Require Import Prelude Range HeaderRow.
Open Scope N_scope.
Set Implicit Arguments.

Section Reader.
Variable Name : Type.          (* sheet / table names *)
Variable Result : Type.        (* canonical results of read calls *)

Inductive call : Type :=
| CRange (n : Name)            (* worksheet_range *)
| CRangeRef (n : Name)         (* worksheet_range_ref *)
| CRangeAt (i : nat)           (* worksheet_range_at *)
| CWorksheets                  (* worksheets *)
| CFormula (n : Name)          (* worksheet_formula *)
| CMerges (n : Name)           (* merged regions of a sheet *)
| CTables                      (* load_tables + table_names *)
| CTable (n : Name)            (* load_tables + table_by_name *)
| CVba                         (* vba_project *)
| CSheetNames | CMeta | CDefinedNames.

Inductive op : Type :=
| OSetHeader (h : header_row)  (* with_header_row *)
| OCall (c : call).

(* What the file determines: the result of a call under a given header-row option.  A call
   re-opens the part it needs and builds a fresh cell reader, so nothing else is remembered. *)
Variable sem : header_row -> call -> Result.

Record state : Type := mkState { st_hdr : header_row }.
Definition init : state := mkState FirstNonEmptyRow.

Definition step (s : state) (o : op) : state * option Result :=
  match o with
  | OSetHeader h => (mkState h, None)
  | OCall c => (s, Some (sem (st_hdr s) c))
  end.

Fixpoint run (s : state) (ops : list op) : state * list (option Result) :=
  match ops with
  | [] => (s, [])
  | o :: rest =>
      let '(s1, r) := step s o in
      let '(s2, rs) := run s1 rest in
      (s2, r :: rs)
  end.

(* the option in force after a history: the last one set, the default when none was *)
Fixpoint header_in_force (h0 : header_row) (ops : list op) : header_row :=
  match ops with
  | [] => h0
  | OSetHeader h :: rest => header_in_force h rest
  | OCall _ :: rest => header_in_force h0 rest
  end.

End Reader.

Arguments OSetHeader {Name} h.
Arguments CRangeAt {Name} i.
Arguments CWorksheets {Name}.
Arguments CTables {Name}.
Arguments CVba {Name}.
Arguments CSheetNames {Name}.
Arguments CMeta {Name}.
Arguments CDefinedNames {Name}.
Arguments init : clear implicits.

(* ---- owned range derived from the borrowed one: Range { start, end, inner.map(into) } ---- *)
Definition map_range {A B : Type} (f : A -> B) (r : range A) : range B :=
  mkRange (r_start r) (r_end r) (map f (r_inner r)).

(* ---- worksheet_range_at(n): the n-th sheet name, then worksheet_range ---- *)
Definition range_at {Name R : Type} (names : list Name) (range_of_name : Name -> R) (n : nat)
  : option R :=
  match nth_error names n with
  | Some name => Some (range_of_name name)
  | None => None
  end.

(* ---- lookup of a sheet by name: first entry with that name, an error otherwise ---- *)
Fixpoint find_sheet {Name S : Type} (eqb : Name -> Name -> bool) (sheets : list (Name * S)) (n : Name)
  : option S :=
  match sheets with
  | [] => None
  | (m, s) :: rest => if eqb m n then Some s else find_sheet eqb rest n
  end.
