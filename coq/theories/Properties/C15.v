(* Property C15 — XLSX shared formulas expand to the translated formula of each member cell.
   Only the property theorems (closed by [exact]), [Check] pins, non-vacuity examples and
   [Print Assumptions].  Model / spec / known classes: SharedFmla.v; proofs: SharedFmla_proofs.v
   (which uses Col26.v / Col26_proofs.v).
   Every theorem holds for an arbitrary oracle [is_alnum] (Rust's Unicode-aware
   char::is_alphanumeric) that agrees with the ASCII definition on ASCII. *)
From Calamine Require Import Prelude Col26 SharedFmla SharedFmla_proofs.
Open Scope N_scope.

Definition alnum_oracle (is_alnum : N -> bool) : Prop :=
  forall c, c < 128 -> is_alnum c = ascii_alnum c.

(* the rewriting of the master text: for every formula of the token grammar, at every offset
   that keeps its references on the sheet, the real scanner returns the text of the formula
   whose relative reference components moved by the offset — cell references in all four $
   forms, whole-column and whole-row ranges, and unchanged: look-alike function / sheet / defined
   names, 3-D sheet prefixes, non-ASCII text, quotes inside quoted sheet names, long digit runs,
   bracketed references.  No known class is left: the statement is unconditional over the
   grammar. *)
Theorem C15_translate_correct :
  forall is_alnum, alnum_oracle is_alnum ->
  forall ts off,
    wf_formula is_alnum ts = true -> in_range ts off ->
    replace_cell_names is_alnum (render_all ts) off = Ok (render_all (map (translate off) ts)).
Proof. exact translate_correct. Qed.

(* every offset between two cells of a sheet, also where a translated reference would leave the
   sheet (outside the property's domain): that reference (cell, whole-column or whole-row range)
   is reproduced unchanged as a whole, nothing else is affected *)
Theorem C15_translate_total :
  forall is_alnum, alnum_oracle is_alnum ->
  forall ts off,
    wf_formula is_alnum ts = true -> off_ok off = true ->
    replace_cell_names is_alnum (render_all ts) off = Ok (render_all (map (translate_clip off) ts)).
Proof. exact translate_total. Qed.

(* any text at all, any offset up to 2^62: no panic (usize bracket depth, i64 arithmetic), no
   error, the fuel of the model suffices *)
Theorem C15_no_panic :
  forall is_alnum s off, off_small off -> exists r, replace_cell_names is_alnum s off = Ok r.
Proof. exact rcn_total. Qed.

(* totality after the C06 hardening (for C06): no hypothesis on the input.  The A1 scanner and
   get_dimension as of HEAD (u64 saturating accumulators, u32::try_from, saturating_sub; Col26.v): *)
Theorem C15_no_panic_get_row_column :
  forall range, get_row_column range <> Panic /\ get_row_column range <> OutOfFuel.
Proof. exact no_panic_get_row_column. Qed.
Theorem C15_no_panic_get_dimension :
  forall d, get_dimension d <> Panic /\ get_dimension d <> OutOfFuel.
Proof. exact no_panic_get_dimension. Qed.
(* replace_cell_names, in the <> form; and the shared-formula part of next_formula /
   worksheet_formula on any sequence of <c> elements — any ref attribute (inverted, huge,
   garbage), any master text, any shared index, any order; positions are u32 as in the Rust
   type: an error at worst *)
Theorem C15_no_panic_replace_cell_names :
  forall is_alnum s off, off_small off ->
    replace_cell_names is_alnum s off <> Panic /\ replace_cell_names is_alnum s off <> OutOfFuel.
Proof. exact no_panic_replace_cell_names. Qed.
Theorem C15_no_panic_next_formula :
  forall is_alnum cells,
    Forall (fun c : fcell => u32_pos (fst c)) cells ->
    (run_cells is_alnum [] cells <> Panic /\ run_cells is_alnum [] cells <> OutOfFuel) /\
    (sheet_formulas is_alnum cells <> Panic /\ sheet_formulas is_alnum cells <> OutOfFuel).
Proof. exact no_panic_next_formula. Qed.
Example C15_no_panic_next_formula_nonvacuous :
  Forall (fun c : fcell => u32_pos (fst c))
    [((1, 1), FMaster 0 [66;51;58;66;50] [65;49]); ((2, 1), FMember 0 [75])] /\
  run_cells ascii_alnum [] [((1, 1), FMaster 0 [66;51;58;66;50] [65;49]); ((2, 1), FMember 0 [75])]
  = Ok [((1, 1), [65;49]); ((2, 1), [75])].
Proof. exact no_panic_next_formula_nonvacuous. Qed.

Example C15_translate_correct_nonvacuous :
  alnum_oracle ascii_alnum /\
  wf_formula ascii_alnum ex_tokens = true /\ in_range ex_tokens (5, 2)%Z /\
  render_all (map (translate (5, 2)%Z) ex_tokens) <> render_all ex_tokens /\
  replace_cell_names ascii_alnum (render_all ex_tokens) (5, 2)%Z
    = Ok (render_all (map (translate (5, 2)%Z) ex_tokens)).
Proof. split; [exact ascii_oracle|exact translate_correct_nonvacuous]. Qed.

(* the groups: on every sheet of well-formed groups — column, row or block refs, the master
   anywhere, shared indices in any document order, repeated or with gaps — whose member formulas
   are of the grammar and stay on the sheet, every cell is reported with the formula the property demands: a
   member inside the declared ref of the group its index denotes gets the master formula
   translated by its own offset, every other cell keeps its own text *)
Theorem C15_group_covers_range :
  forall is_alnum, alnum_oracle is_alnum ->
  forall cs,
    sheet_okb is_alnum [] cs = true ->
    run_cells is_alnum [] (map encode_cell cs) = Ok (spec_cells [] cs) /\
    sheet_formulas is_alnum (map encode_cell cs)
      = Ok (filter (fun pv => nonempty (snd pv)) (spec_cells [] cs)).
Proof. exact group_covers_range. Qed.

Example C15_group_covers_range_nonvacuous :
  sheet_okb ascii_alnum [] ex_sheet = true /\
  nth_error (spec_cells [] ex_sheet) 1 = Some ((1, 1), []) /\
  nth_error (spec_cells [] ex_sheet) 3
    = Some ((2, 3), render_all [TRef true 0 false 20; TSym 43; TRef false 6 true 0; TSym 42;
                                TFunc [76;79;71;49;48]; TRef false 8 false 21; TSym 41]) /\
  nth_error (spec_cells [] ex_sheet) 4
    = Some ((3, 1), render_all [TRef true 0 false 21; TSym 43; TRef false 4 true 0; TSym 42;
                                TFunc [76;79;71;49;48]; TRef false 6 false 22; TSym 41]) /\
  nth_error (spec_cells [] ex_sheet) 8
    = Some ((5, 4), render_all [TRef false 3 false 0; TSym 43; TNum [49] None None]) /\
  nth_error (spec_cells [] ex_sheet) 9 = Some ((6, 0), [75]).
Proof. exact group_covers_range_nonvacuous. Qed.

(* the classes repaired last, as examples of the theorems above: SUM(A:$B) one column to the
   right, SUM(1:3) two rows down, ranges that would leave the sheet, Q1:Q3!A1 *)
Example C15_whole_range_and_sheet3d_fixed_nonvacuous :
  replace_cell_names ascii_alnum (render_all wt_whole_cols) (0, 1)%Z = Ok [83;85;77;40;66;58;36;66;41] /\
  replace_cell_names ascii_alnum (render_all wt_whole_rows) (2, 0)%Z = Ok [83;85;77;40;51;58;53;41] /\
  replace_cell_names ascii_alnum [65;58;66] (0, -1)%Z = Ok [65;58;66] /\
  replace_cell_names ascii_alnum (render_all wt_sheet3d) (1, 0)%Z = Ok [81;49;58;81;51;33;65;50].
Proof.
  exact (conj (proj1 (proj2 (proj2 whole_range_fixed)))
        (conj (proj1 (proj2 (proj2 (proj2 (proj2 (proj2 whole_range_fixed))))))
        (conj (proj1 (proj2 (proj2 (proj2 (proj2 (proj2 (proj2 whole_range_fixed)))))))
              (proj2 (proj2 sheet3d_fixed))))).
Qed.

Check C15_translate_correct :
  forall is_alnum, (forall c, c < 128 -> is_alnum c = ascii_alnum c) ->
  forall ts off,
    wf_formula is_alnum ts = true -> in_range ts off ->
    replace_cell_names is_alnum (render_all ts) off = Ok (render_all (map (translate off) ts)).
Check C15_group_covers_range :
  forall is_alnum, (forall c, c < 128 -> is_alnum c = ascii_alnum c) ->
  forall cs,
    sheet_okb is_alnum [] cs = true ->
    run_cells is_alnum [] (map encode_cell cs) = Ok (spec_cells [] cs) /\
    sheet_formulas is_alnum (map encode_cell cs)
      = Ok (filter (fun pv => nonempty (snd pv)) (spec_cells [] cs)).

Print Assumptions C15_translate_correct.
Print Assumptions C15_translate_total.
Print Assumptions C15_no_panic.
Print Assumptions C15_no_panic_get_row_column.
Print Assumptions C15_no_panic_get_dimension.
Print Assumptions C15_no_panic_replace_cell_names.
Print Assumptions C15_no_panic_next_formula.
Print Assumptions C15_group_covers_range.
