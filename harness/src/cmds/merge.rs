// C17: merged regions and tables — the calls that the generic `open` command does not offer.
//   merge dim <hex>                 xlsx get_dimension (hook) on raw bytes  -> ok r0,c0,r1,c1 | err
//   merge xlsmc <hex>               xls parse_merge_cells (hook) on record data -> ok d/d/… | err
//   merge tableref <path> <hexname> Xlsx::load_tables + table_by_name_ref, printed like `open … table`
// A panic is answered "panic" by the dispatcher (catch_unwind in main.rs).
use crate::util::*;
use calamine::{Reader, Xlsx};
use std::io::Cursor;

fn dims(d: &((u32, u32), (u32, u32))) -> String {
    format!("{},{},{},{}", (d.0).0, (d.0).1, (d.1).0, (d.1).1)
}

pub fn run(args: &[&str]) -> String {
    match args.first().copied() {
        Some("dim") => {
            let b = unhex(args.get(1).copied().unwrap_or(""));
            match calamine::verif_hooks::xlsx::get_dimension(&b) {
                Ok(d) => format!("ok {}", dims(&d)),
                Err(_) => "err".to_string(),
            }
        }
        Some("xlsmc") => {
            let b = unhex(args.get(1).copied().unwrap_or(""));
            match calamine::verif_hooks::xls::parse_merge_cells(&b) {
                Ok(v) => format!("ok {}", v.iter().map(dims).collect::<Vec<_>>().join("/")),
                Err(_) => "err".to_string(),
            }
        }
        Some("tableref") => {
            let bytes = match std::fs::read(args[1]) {
                Ok(b) => b,
                Err(_) => return "nofile".to_string(),
            };
            let mut x: Xlsx<_> = match Xlsx::new(Cursor::new(bytes)) {
                Ok(x) => x,
                Err(_) => return "openerr:other".to_string(),
            };
            if x.load_tables().is_err() {
                return "err:other".to_string();
            }
            let name = String::from_utf8_lossy(&unhex(args.get(2).copied().unwrap_or(""))).into_owned();
            match x.table_by_name_ref(&name) {
                Err(_) => "err:other".to_string(),
                Ok(t) => format!(
                    "{}|{}|{}|{}",
                    hexstr(t.name()),
                    hexstr(t.sheet_name()),
                    t.columns().iter().map(|c| hexstr(c)).collect::<Vec<_>>().join(","),
                    crate::cmds::open::range_ref_str(t.data())
                ),
            }
        }
        _ => "badargs".to_string(),
    }
}
