(* C14, environment of the formula decoders and formula ranges (extracted FormulaEnv model).
     fenv xlsb SHEETS STALE_HEX RECS   records of workbook.bin after BrtEndBundleShs
     fenv xls  SHEETS RECS             Lbl / ExternSheet / other records of the globals substream
        SHEETS: comma-separated hex of UTF-8 names ("-" = none, "." = empty name)
        RECS:   typ:hexpayload,typ:hexpayload,…   (typ decimal; "-" = no record)
        answer: ok:<hexname=hexformula,…>|<extern sheets or sup:first:last XTIs> | err | panic
              (the first field is exactly what the harness prints for `open … names`)
     fpos keep|drop CELLS             CELLS: row:col:hextext,… ("-" = none)
        answer: the formula range in the format of `open … formula`: R[r0,c0,r1,c1|hex,hex/…] | R[-] *)
open Conv
open Prelude

let name_list (s : string) : BinNums.coq_N list list =
  if s = "-" then [] else
    List.map (fun h -> if h = "." then [] else scalars_of_hex h) (String.split_on_char ',' s)

let recs (s : string) =
  if s = "-" || s = "" then [] else
    List.map (fun t -> match String.split_on_char ':' t with
        | [ty; h] -> (n_of_string ty, bytes_of_hex h)
        | [ty] -> (n_of_string ty, [])
        | _ -> failwith "bad record") (String.split_on_char ',' s)

let names_str l =
  String.concat "," (List.map (fun (n, f) -> hex_of_scalars n ^ "=" ^ hex_of_scalars f) l)

let run_fenv (args : string list) : string =
  match args with
  | ["xlsb"; sh; stale; rs] ->
    (* [stale]: since the C06 hardening no read goes past the record; the argument is ignored *)
    (match FormulaEnv.xlsb_read_names Cmd_ptg.show_f64 (name_list sh) (recs rs) with
     | Ok (ext, names) -> "ok:" ^ names_str names ^ "|" ^ String.concat "," (List.map hex_of_scalars ext)
     | Err _ -> "err" | Panic -> "panic" | OutOfFuel -> "fuel")
  | ["xls"; sh; rs] ->
    (match FormulaEnv.xls_read_names Cmd_ptg.show_f64 (name_list sh) (recs rs) with
     | Ok (names, xtis) ->
       "ok:" ^ names_str names ^ "|" ^
       String.concat "," (List.map (fun ((a, b), c) -> string_of_n a ^ ":" ^ string_of_n b ^ ":" ^ string_of_n c) xtis)
     | Err _ -> "err" | Panic -> "panic" | OutOfFuel -> "fuel")
  | _ -> "bad-args"

let run_fpos (args : string list) : string =
  match args with
  | [mode; cs] ->
    let cells =
      if cs = "-" || cs = "" then [] else
        List.map (fun t -> match String.split_on_char ':' t with
            | [r; c; h] -> ((n_of_string r, n_of_string c), scalars_of_hex h)
            | [r; c] -> ((n_of_string r, n_of_string c), [])
            | _ -> failwith "bad cell") (String.split_on_char ',' cs) in
    (match FormulaEnv.formula_range (mode = "keep") cells with
     | Ok r ->
       (match Range.start r, Range.end_ r with
        | Some (sr, sc), Some (er, ec) ->
          let rows = Range.rows r in
          Printf.sprintf "R[%s,%s,%s,%s|%s]" (string_of_n sr) (string_of_n sc) (string_of_n er) (string_of_n ec)
            (String.concat "/" (List.map (fun row -> String.concat "," (List.map hex_of_scalars row)) rows))
        | _ -> "R[-]")
     | Err _ -> "err" | Panic -> "panic" | OutOfFuel -> "fuel")
  | _ -> "bad-args"

(* fsheet xlsb SHEETS NAMES RECS: the same for the records of an xlsb sheet part after BrtBeginSheetData.
   fsheet xls SHEETS NAMES XTIS RECS: the formula range of one sheet substream (FORMULA / SHRFMLA /
   ARRAY / EOF and ignored records; typ:hexpayload,…), SHEETS as the decoder's table holds them
   (quoted), NAMES / XTIS as for `ptg`; answer in the format of `open … formula` *)
let range_str (r : BinNums.coq_N list Range.range) : string =
  match Range.start r, Range.end_ r with
  | Some (sr, sc), Some (er, ec) ->
    let rows = Range.rows r in
    Printf.sprintf "R[%s,%s,%s,%s|%s]" (string_of_n sr) (string_of_n sc) (string_of_n er) (string_of_n ec)
      (String.concat "/" (List.map (fun row -> String.concat "," (List.map hex_of_scalars row)) rows))
  | _ -> "R[-]"

let run_fsheet (args : string list) : string =
  match args with
  | ["xls"; sh; nm; xt; rs] ->
    (* the Debug text of an undecodable formula is outside the model: never compared *)
    let unrec _ _ = List.map (fun c -> Conv.n_of_int (Char.code c)) ['?'] in
    (match FormulaSheet.xls_sheet_formula_range Cmd_ptg.show_f64 unrec (name_list sh) (name_list nm)
             (Cmd_ptg.xti_list xt) (recs rs) with
     | Ok r -> range_str r
     | Err _ -> "err" | Panic -> "panic" | OutOfFuel -> "fuel")
  | ["xlsb"; sh; nm; rs] ->
    (* the records of a sheet part that follow BrtBeginSheetData; SHEETS = extern_sheets as resolved *)
    (match FormulaSheet.xlsb_sheet_formula_range Cmd_ptg.show_f64 (name_list sh) (name_list nm) (recs rs) with
     | Ok r -> range_str r
     | Err _ -> "err" | Panic -> "panic" | OutOfFuel -> "fuel")
  | _ -> "bad-args"

let () = Registry.register "fsheet" run_fsheet
let () = Registry.register "fenv" run_fenv
let () = Registry.register "fpos" run_fpos
let init () = ()
