(* PasswordCfb_proofs.v — proofs for property C20, OOXML part, over the compound-file model of
   property C13 (Cfb.v / Cfb_proofs.v):
     the signature check of Header::from_reader on bytes (a zip is never a compound file),
     has_directory over a directory array (an entry of the ROOT storage since the fix of audit
     finding G8; the flat scan when the root entry links to no child), Directory::from_slice on a
     written entry, check_for_password_protected on the BYTES of a written container in ANY valid
     layout (composition with C13's has_directory_root / has_directory_flat / cfb_new_written), its
     converse, totality. *)
From Calamine Require Import Prelude Utf16 Utf16_proofs Cfb Cfb_proofs PasswordCfb.
Open Scope N_scope.

(* ================================================================== signature check *)
Lemma header_non_ole : forall f,
  list_eqb (firstn 8 f) SIGNATURE = false ->
  header_from_reader f = Err ERR_IO \/ header_from_reader f = Err ERR_OLE.
Proof.
  intros f H. unfold header_from_reader, read_exact.
  destruct (lenN f <? 512); [left; reflexivity|right].
  cbn [obind]. unfold takeN. rewrite firstn_firstn.
  change (Nat.min 8 (N.to_nat 512)) with 8%nat. rewrite H. reflexivity.
Qed.

(* MAIN (byte level): input that does not start with the eight OLE signature bytes is rejected by
   Cfb::new — with Io when it is shorter than 512 bytes, with Ole otherwise — for any fuel *)
Theorem non_ole_rejected : forall f fuel,
  list_eqb (firstn 8 f) SIGNATURE = false ->
  cfb_new fuel f = Err ERR_IO \/ cfb_new fuel f = Err ERR_OLE.
Proof.
  intros f fuel H. unfold cfb_new.
  destruct (header_non_ole f H) as [E|E]; rewrite E; [left|right]; reflexivity.
Qed.

(* a zip local-file-header signature is not the OLE signature *)
Lemma zip_not_ole : forall f, firstn 4 f = ZIP_LOCAL -> list_eqb (firstn 8 f) SIGNATURE = false.
Proof.
  intros f H. destruct f as [|a [|b [|c [|d f]]]]; try discriminate.
  cbn [firstn] in H. unfold ZIP_LOCAL in H. inversion H. subst. reflexivity.
Qed.

Theorem zip_rejected : forall f fuel, firstn 4 f = ZIP_LOCAL ->
  cfb_new fuel f = Err ERR_IO \/ cfb_new fuel f = Err ERR_OLE.
Proof. intros f fuel H. apply non_ole_rejected. apply zip_not_ole. exact H. Qed.

(* MAIN (ooxml, converse, bytes): a file that does not start with the OLE signature — every zip,
   hence every unencrypted xlsx / xlsb — passes the password check and the reader goes on to open
   the zip *)
Theorem non_ole_not_password : forall f fuel zip,
  list_eqb (firstn 8 f) SIGNATURE = false ->
  ooxml_check_bytes fuel f = Ok tt /\ ooxml_new_bytes fuel f zip = zip.
Proof.
  intros f fuel zip H. unfold ooxml_new_bytes, ooxml_check_bytes, ooxml_new, cfb_dirs.
  destruct (non_ole_rejected f fuel H) as [E|E]; rewrite E; split; reflexivity.
Qed.

Corollary zip_no_false_positive : forall f fuel zip, firstn 4 f = ZIP_LOCAL ->
  (cfb_new fuel f = Err ERR_IO \/ cfb_new fuel f = Err ERR_OLE) /\
  ooxml_check_bytes fuel f = Ok tt /\
  ooxml_new_bytes fuel f zip = zip.
Proof.
  intros f fuel zip H. split; [exact (zip_rejected f fuel H)|].
  apply non_ole_not_password. apply zip_not_ole. exact H.
Qed.

(* ================================================================== has_directory *)
(* the directory-scan model of this file is Cfb.has_directory on the directory array *)
Lemma has_directory_is_cfb : forall cf name,
  Cfb.has_directory cf name = PasswordCfb.has_directory (directories cf) name.
Proof. reflexivity. Qed.

(* the ids Cfb::children collects are entries of the array *)
Lemma children_loop_in_range : forall fuel ds seen todo acc l,
  (forall i, In i acc -> exists d, nthN ds i = Some d) ->
  children_loop fuel ds seen todo acc = Ok l -> forall i, In i l -> exists d, nthN ds i = Some d.
Proof.
  induction fuel as [|f IH]; intros ds seen todo acc l Hacc H i Hi.
  - destruct todo; [|discriminate]. cbn [children_loop] in H. inversion H; subst l.
    apply in_rev in Hi. apply Hacc. exact Hi.
  - destruct todo as [|id rest].
    + cbn [children_loop] in H. inversion H; subst l. apply in_rev in Hi. apply Hacc. exact Hi.
    + cbn [children_loop] in H. destruct (nthN ds id) as [d|] eqn:Ed.
      * destruct (memN id seen); [apply (@IH _ _ _ _ _ Hacc H i Hi)|].
        refine (IH _ _ _ _ _ _ H i Hi). intros j [<-|Hj]; [exists d; exact Ed|apply Hacc; exact Hj].
      * apply (@IH _ _ _ _ _ Hacc H i Hi).
Qed.

Lemma children_in_range : forall ds p i, In i (children ds p) -> exists d, nthN ds i = Some d.
Proof.
  intros ds p i Hi. unfold children in Hi. destruct (nthN ds p) as [dp|]; [|destruct Hi].
  destruct (children_loop (children_fuel ds) ds [0] [d_child dp] []) as [l| | |] eqn:E; try destruct Hi.
  refine (@children_loop_in_range _ _ _ _ _ _ _ E i Hi). intros j [].
Qed.

Lemma nthN_In : forall (A : Type) (l : list A) i d, nthN l i = Some d -> In d l.
Proof. intros A l i d H. rewrite nthN_nth_error in H. apply (nth_error_In _ _ H). Qed.

(* whatever the links: an entry that has_directory finds carries the name — up to case, CFB-1 — and
   is in the array *)
Lemma has_directory_sound : forall dirs name,
  PasswordCfb.has_directory dirs name = true -> exists d, In d dirs /\ name_equiv (d_name d) name.
Proof.
  intros dirs name H. unfold PasswordCfb.has_directory in H.
  destruct (find_entry dirs [name]) as [d|] eqn:E; [|discriminate]. clear H. unfold find_entry in E.
  destruct (children dirs 0) as [|x xs] eqn:Ec.
  - cbn [last_opt] in E. unfold find_dir in E. apply find_some in E.
    exists d. split; [exact (proj1 E)|apply name_eqb_equiv; exact (proj2 E)].
  - cbn [find_from] in E. rewrite Ec in E. destruct (find (name_is dirs name) (x :: xs)) as [i|] eqn:Ef; [|discriminate].
    apply find_some in Ef. destruct Ef as [_ Ef]. unfold name_is in Ef. rewrite E in Ef.
    exists d. split; [apply (@nthN_In _ _ _ _ E)|apply name_eqb_equiv; exact Ef].
Qed.

(* no hierarchy in the array (the root entry links to no child): any entry of that name *)
Lemma has_directory_flat_iff : forall dirs name, children dirs 0 = [] ->
  (PasswordCfb.has_directory dirs name = true <-> exists d, In d dirs /\ name_equiv (d_name d) name).
Proof.
  intros dirs name Hc. split; [apply has_directory_sound|]. intros (d & Hin & Hn).
  unfold PasswordCfb.has_directory. rewrite find_entry_flat by exact Hc. cbn [last_opt]. unfold find_dir.
  destruct (find (fun d => name_eqb (d_name d) name) dirs) as [d'|] eqn:E; [reflexivity|].
  pose proof (find_none _ _ E d Hin) as H. cbn beta in H. apply name_eqb_equiv in Hn. rewrite Hn in H. discriminate.
Qed.

(* a hierarchy: an entry of that name among those the root entry's sibling tree links to *)
Lemma has_directory_child : forall dirs name i d,
  In i (children dirs 0) -> nthN dirs i = Some d -> name_equiv (d_name d) name ->
  PasswordCfb.has_directory dirs name = true.
Proof.
  intros dirs name i d Hi Hd Hn. unfold PasswordCfb.has_directory, find_entry.
  destruct (children dirs 0) as [|x xs] eqn:Ec; [destruct Hi|]. cbn [find_from]. rewrite Ec.
  destruct (find (name_is dirs name) (x :: xs)) as [j|] eqn:E.
  - apply find_some in E. destruct E as [Hj _]. rewrite <- Ec in Hj.
    destruct (@children_in_range dirs 0 j Hj) as [dj Hdj]. rewrite Hdj. reflexivity.
  - pose proof (find_none _ _ E i Hi) as H. unfold name_is in H. apply name_eqb_equiv in Hn. rewrite Hd, Hn in H. discriminate.
Qed.

(* MAIN (ooxml, positive, over a parsed directory without hierarchy — what every lookup was before
   the fix of G8): an entry named EncryptedPackage at any index, among any other entries, makes
   the check answer Password; the zip is never opened *)
Theorem encrypted_package_is_password : forall before d after_ zip,
  children (before ++ d :: after_) 0 = [] ->
  name_equiv (d_name d) ENCRYPTED_PACKAGE ->
  ooxml_check (Ok (before ++ d :: after_)) = Err E_PASSWORD /\
  ooxml_new (Ok (before ++ d :: after_)) zip = Err E_PASSWORD.
Proof.
  intros before d after_ zip Hc H.
  assert (Hd : PasswordCfb.has_directory (before ++ d :: after_) ENCRYPTED_PACKAGE = true).
  { apply (@has_directory_flat_iff (before ++ d :: after_) ENCRYPTED_PACKAGE Hc). exists d. split; [|exact H]. apply in_or_app. right. left.
    reflexivity. }
  unfold ooxml_new, ooxml_check. rewrite Hd. split; reflexivity.
Qed.

(* MAIN (ooxml, positive, over a parsed directory with a hierarchy): an entry named
   EncryptedPackage that the root storage holds — at any index of the array *)
Theorem encrypted_package_of_root_is_password : forall dirs i d zip,
  In i (children dirs 0) -> nthN dirs i = Some d -> name_equiv (d_name d) ENCRYPTED_PACKAGE ->
  ooxml_check (Ok dirs) = Err E_PASSWORD /\ ooxml_new (Ok dirs) zip = Err E_PASSWORD.
Proof.
  intros dirs i d zip Hi Hd Hn. pose proof (@has_directory_child dirs ENCRYPTED_PACKAGE i d Hi Hd Hn) as H.
  unfold ooxml_new, ooxml_check. rewrite H. split; reflexivity.
Qed.

Theorem no_encrypted_package_not_password : forall cfb,
  (forall dirs, cfb = Ok dirs -> forall d, In d dirs -> ~ name_equiv (d_name d) ENCRYPTED_PACKAGE) ->
  ooxml_check cfb <> Err E_PASSWORD.
Proof.
  intros cfb H. unfold ooxml_check. destruct cfb as [dirs|e| |]; try discriminate.
  destruct (PasswordCfb.has_directory dirs ENCRYPTED_PACKAGE) eqn:E; [|discriminate].
  apply has_directory_sound in E. destruct E as (d & Hin & Hd).
  exfalso. exact (H dirs eq_refl d Hin Hd).
Qed.

(* ================================================================== Directory::from_slice *)
Lemma utf16le_ascii_length : forall s, length (utf16le_ascii s) = (2 * length s)%nat.
Proof. induction s as [|c s IH]; cbn [utf16le_ascii length]; lia. Qed.

Lemma ascii_not_surr : forall c, c <= 127 -> is_surr c = false.
Proof. intros c H. unfold is_surr. lia. Qed.

(* decode_without_bom_handling over an ASCII name followed by the terminator, cut at the NUL *)
Lemma decode_name_ascii : forall s rest,
  forallb (fun c => (1 <=? c) && (c <=? 127)) s = true ->
  decode_name (utf16le_ascii s ++ 0 :: 0 :: rest) = s.
Proof.
  unfold decode_name, utf16le_decode_bytes.
  induction s as [|c s IH]; intros rest H.
  - cbn [utf16le_ascii app units_of_bytes_le].
    destruct (units_of_bytes_le rest) as [us odd].
    replace (0 + 256 * 0) with 0 by lia.
    rewrite (decode_bmp 0 us (ascii_not_surr 0 ltac:(lia))).
    cbn [app take_until_nul]. change (0 =? 0) with true. reflexivity.
  - cbn [forallb] in H. apply andb_prop in H. destruct H as [Hc Hs].
    assert (Hc1 : 1 <= c) by lia. assert (Hc2 : c <= 127) by lia.
    specialize (IH rest Hs).
    cbn [utf16le_ascii app units_of_bytes_le].
    destruct (units_of_bytes_le (utf16le_ascii s ++ 0 :: 0 :: rest)) as [us odd].
    replace (c + 256 * 0) with c by lia.
    rewrite (decode_bmp c us (ascii_not_surr c Hc2)).
    cbn [app take_until_nul]. destruct (c =? 0) eqn:E; [lia|]. rewrite IH. reflexivity.
Qed.

Lemma name_field_shape : forall name pad, (length name <= 31)%nat ->
  exists rest, name_field name pad = utf16le_ascii name ++ 0 :: 0 :: rest /\
               length (name_field name pad) = 64%nat.
Proof.
  intros name pad H. unfold name_field.
  pose proof (utf16le_ascii_length name) as Hl.
  rewrite firstn_app. rewrite firstn_all2 by lia.
  replace (64 - length (utf16le_ascii name))%nat with (2 + (62 - 2 * length name))%nat by lia.
  cbn [app firstn plus].
  exists (firstn (62 - 2 * length name) (pad ++ repeat 0 64)). split; [reflexivity|].
  rewrite app_length. cbn [length]. rewrite firstn_length, app_length, repeat_length. lia.
Qed.

Lemma firstn_app_exact' : forall (A : Type) (a b : list A) n, length a = n -> firstn n (a ++ b) = a.
Proof.
  intros A a b n H. rewrite firstn_app, H, Nat.sub_diag. cbn [firstn].
  rewrite app_nil_r. apply firstn_all2. lia.
Qed.

Lemma skipn_app_exact : forall (A : Type) (a b : list A) n, length a = n -> skipn n (a ++ b) = b.
Proof.
  intros A a b n H. rewrite skipn_app, H, Nat.sub_diag. cbn [skipn].
  rewrite <- H, skipn_all. reflexivity.
Qed.

Lemma dir_entry_length : forall name pad mid start size, (length name <= 31)%nat ->
  length (dir_entry_bytes name pad mid start size) = 128%nat.
Proof.
  intros name pad mid start size H. unfold dir_entry_bytes.
  destruct (name_field_shape name pad H) as (rest & _ & Hl64).
  rewrite !app_length, Hl64, firstn_length, app_length, repeat_length.
  cbn [le_bytes length]. lia.
Qed.

Definition slice_entry (buf : list N) (ss : N) : dirent :=
  {| d_name := decode_name (firstn 64 buf);
     d_left := u32_at buf 68; d_right := u32_at buf 72; d_child := u32_at buf 76;
     d_start := u32_at buf 116;
     d_len := if ss =? 512 then u32_at buf 120 else u64_at buf 120 |}.

Lemma from_slice_128 : forall buf ss, length buf = 128%nat ->
  from_slice buf ss = Ok (slice_entry buf ss).
Proof.
  intros buf ss H. unfold from_slice, slice_entry. rewrite H.
  change (128 <? 64)%nat with false. change (128 <? 80)%nat with false. change (128 <? 120)%nat with false.
  change (128 <? 124)%nat with false. change (128 <? 128)%nat with false. cbn iota.
  destruct (ss =? 512); reflexivity.
Qed.

(* MAIN (entry level): Directory::from_slice reads back the name a writer stored, for any ASCII
   name of up to 31 characters, any bytes behind the terminator, any other fields, both sector
   sizes *)
Theorem directory_from_slice_name : forall name pad mid start size ss,
  ascii_name name = true ->
  exists d, from_slice (dir_entry_bytes name pad mid start size) ss = Ok d /\ d_name d = name.
Proof.
  intros name pad mid start size ss H. unfold ascii_name in H. apply andb_prop in H.
  destruct H as [Hasc Hlen]. apply Nat.leb_le in Hlen.
  destruct (name_field_shape name pad Hlen) as (rest & Hshape & Hl64).
  rewrite (from_slice_128 _ ss (dir_entry_length name pad mid start size Hlen)).
  eexists. split; [reflexivity|]. unfold slice_entry. cbn [d_name].
  assert (Hname : firstn 64 (dir_entry_bytes name pad mid start size) = name_field name pad).
  { unfold dir_entry_bytes. apply firstn_app_exact'. exact Hl64. }
  rewrite Hname, Hshape. apply (decode_name_ascii name rest Hasc).
Qed.

(* chunks_exact(128) over a directory chain made of whole entries *)
Lemma chunks_aux_concat : forall (ents : list (list N)) fuel,
  Forall (fun e => length e = 128%nat) ents -> (length ents <= fuel)%nat ->
  chunks_aux fuel 128 (concat ents) = ents.
Proof.
  induction ents as [|e ents IH]; intros fuel Hall Hf.
  - destruct fuel; reflexivity.
  - destruct fuel as [|f]; [cbn in Hf; lia|].
    inversion Hall as [|? ? He Hes]. subst.
    cbn [concat chunks_aux].
    destruct (e ++ concat ents) as [|x xs] eqn:E.
    + apply app_eq_nil in E. destruct E as [-> _]. discriminate.
    + rewrite <- E. rewrite (firstn_app_exact' _ e (concat ents) _ He).
      rewrite (skipn_app_exact _ e (concat ents) _ He).
      rewrite IH; [reflexivity|exact Hes|cbn [length] in Hf; lia].
Qed.

Lemma concat_length_128 : forall ents : list (list N),
  Forall (fun e => length e = 128%nat) ents -> (length ents <= length (concat ents))%nat.
Proof.
  induction 1 as [|e ents He _ IH]; [cbn; lia|]. cbn [concat length]. rewrite app_length. lia.
Qed.

Lemma filter_all_128 : forall ents : list (list N),
  Forall (fun e => length e = 128%nat) ents ->
  filter (fun c => (length c =? 128)%nat) ents = ents.
Proof.
  induction 1 as [|e ents He _ IH]; [reflexivity|]. cbn [filter]. rewrite He.
  change (128 =? 128)%nat with true. cbn iota. rewrite IH. reflexivity.
Qed.

Lemma chunks_exact_concat : forall ents : list (list N),
  Forall (fun e => length e = 128%nat) ents -> chunks_exact 128 (concat ents) = ents.
Proof.
  intros ents H. unfold chunks_exact, chunks.
  rewrite chunks_aux_concat; [apply filter_all_128; exact H|exact H|].
  apply concat_length_128. exact H.
Qed.

Lemma map_outcome_total : forall ss (ents : list (list N)),
  Forall (fun e => length e = 128%nat) ents ->
  exists ds, map_outcome (fun c => from_slice c ss) ents = Ok ds /\
             length ds = length ents /\
             forall i e, nth_error ents i = Some e ->
               exists d, nth_error ds i = Some d /\ from_slice e ss = Ok d.
Proof.
  intros ss. induction 1 as [|e ents He _ IH].
  - exists []. split; [reflexivity|]. split; [reflexivity|]. intros [|i] e H; discriminate.
  - destruct IH as (ds & Hds & Hlen & Hnth).
    exists (slice_entry e ss :: ds).
    cbn [map_outcome]. rewrite (from_slice_128 e ss He), Hds. cbn [obind]. split; [reflexivity|].
    split; [cbn [length]; lia|]. intros [|i] e' H'.
    + cbn [nth_error] in *. inversion H'. subst. eexists. split; [reflexivity|].
      apply from_slice_128. exact He.
    + cbn [nth_error] in *. apply Hnth. exact H'.
Qed.

(* MAIN (directory-chain level): a directory chain of whole 128-byte entries, one of which — at
   any index — is the entry a writer lays out for the name EncryptedPackage (any bytes behind the
   terminator, any other fields, any start and size), all other entries ARBITRARY bytes: the
   directory array is built; the check answers Password when the array carries no hierarchy (the
   root entry links to no child) or the root storage holds that entry *)
Theorem encrypted_ooxml_is_password : forall before after_ pad mid start size ss zip,
  Forall (fun e => length e = 128%nat) before ->
  Forall (fun e => length e = 128%nat) after_ ->
  exists ds,
    parse_dirs (concat (before ++ dir_entry_bytes ENCRYPTED_PACKAGE pad mid start size :: after_)) ss
      = Ok ds /\
    (children ds 0 = [] \/ In (N.of_nat (length before)) (children ds 0) ->
     ooxml_check (Ok ds) = Err E_PASSWORD /\
     ooxml_new (Ok ds) zip = Err E_PASSWORD).
Proof.
  intros before after_ pad mid start size ss zip Hb Ha.
  set (ep := dir_entry_bytes ENCRYPTED_PACKAGE pad mid start size).
  destruct (directory_from_slice_name ENCRYPTED_PACKAGE pad mid start size ss eq_refl)
    as (dep & Hep & Hname). fold ep in Hep.
  assert (Hlen : length ep = 128%nat) by (apply dir_entry_length; cbn; lia).
  assert (Hall : Forall (fun e => length e = 128%nat) (before ++ ep :: after_)).
  { apply Forall_app. split; [exact Hb|]. constructor; assumption. }
  destruct (map_outcome_total ss _ Hall) as (ds & Hds & Hlen' & Hnth).
  destruct (Hnth (length before) ep) as (d & Hd & Hfs).
  { rewrite nth_error_app2 by lia. rewrite Nat.sub_diag. reflexivity. }
  rewrite Hep in Hfs. inversion Hfs. subst d.
  exists ds. unfold parse_dirs. rewrite (chunks_exact_concat _ Hall), Hds. cbn [obind].
  assert (Hin : In dep ds) by (eapply nth_error_In; exact Hd).
  destruct ds as [|d0 ds0]; [destruct Hin|]. split; [reflexivity|].
  intros Hreach.
  assert (Hhas : PasswordCfb.has_directory (d0 :: ds0) ENCRYPTED_PACKAGE = true).
  { destruct Hreach as [Hflat|Hchild].
    - apply (@has_directory_flat_iff (d0 :: ds0) ENCRYPTED_PACKAGE Hflat). exists dep. split; [exact Hin|rewrite Hname; reflexivity].
    - apply (@has_directory_child (d0 :: ds0) ENCRYPTED_PACKAGE (N.of_nat (length before)) dep Hchild); [|rewrite Hname; reflexivity].
      rewrite nthN_nth_error, Nat2N.id. exact Hd. }
  unfold ooxml_new, ooxml_check. rewrite Hhas. split; reflexivity.
Qed.

(* ================================================================== any container layout *)
(* MAIN (ooxml, positive, BYTES): for every container whose ROOT storage holds an object named
   EncryptedPackage (any content, any size — mini stream or regular sectors —, any other streams
   and storages, any hierarchy) and EVERY valid physical layout of it (sector size, placement of
   FAT / DIFAT / directory / mini FAT / mini stream / stream sectors, directory slots, free sectors,
   padding) whose links are a tree over the hierarchy (any shape), the check on the written
   bytes answers Password.  Composition with C13_has_directory_root. *)
Lemma ep_plain : plain ENCRYPTED_PACKAGE.
Proof. split; [discriminate|intros H; vm_compute in H; discriminate]. Qed.

Theorem encrypted_ooxml_is_password_any_layout : forall c l fuel zip,
  valid_layout c l -> linked_tree c l -> (fuel_for l <= fuel)%nat ->
  resolve c 0 [ENCRYPTED_PACKAGE] <> None ->
  ooxml_check_bytes fuel (cfb_write c l) = Err E_PASSWORD /\
  ooxml_new_bytes fuel (cfb_write c l) zip = Err E_PASSWORD.
Proof.
  intros c l fuel zip Hv Ht Hf Hin.
  destruct (@has_directory_root c l Hv Ht fuel Hf) as (cf & r & Hnew & _ & Hhas).
  specialize (Hhas _ ep_plain). rewrite has_directory_is_cfb in Hhas.
  destruct (resolve c 0 [ENCRYPTED_PACKAGE]); [|contradiction].
  unfold ooxml_new_bytes, ooxml_check_bytes, ooxml_new, ooxml_check, cfb_dirs.
  rewrite Hnew. cbn [obind fst]. rewrite Hhas. split; reflexivity.
Qed.

(* the usual case: a stream of that name in the root storage, any ciphertext *)
Corollary encrypted_stream_is_password_any_layout : forall c l fuel zip bytes,
  valid_layout c l -> linked_tree c l -> (fuel_for l <= fuel)%nat ->
  spec_path c [ENCRYPTED_PACKAGE] = Some bytes ->
  ooxml_check_bytes fuel (cfb_write c l) = Err E_PASSWORD /\
  ooxml_new_bytes fuel (cfb_write c l) zip = Err E_PASSWORD.
Proof.
  intros c l fuel zip bytes Hv Ht Hf Hin. apply encrypted_ooxml_is_password_any_layout; try assumption.
  unfold spec_path in Hin. destruct (resolve c 0 [ENCRYPTED_PACKAGE]); discriminate.
Qed.

(* no hierarchy written (every link NOSTREAM, as simple writers leave them): an object of that name
   anywhere in the container *)
Theorem encrypted_ooxml_is_password_any_layout_flat : forall c l fuel zip,
  valid_layout c l -> flat_root c l -> (fuel_for l <= fuel)%nat ->
  mem_name ENCRYPTED_PACKAGE (all_names c) = true ->
  ooxml_check_bytes fuel (cfb_write c l) = Err E_PASSWORD /\
  ooxml_new_bytes fuel (cfb_write c l) zip = Err E_PASSWORD.
Proof.
  intros c l fuel zip Hv Hfl Hf Hin.
  destruct (@has_directory_flat c l fuel Hv Hfl Hf) as (cf & r & Hnew & _ & Hhas).
  pose proof (Hhas _ ep_plain) as H. rewrite Hin, has_directory_is_cfb in H.
  unfold ooxml_new_bytes, ooxml_check_bytes, ooxml_new, ooxml_check, cfb_dirs.
  rewrite Hnew. cbn [obind fst]. rewrite H. split; reflexivity.
Qed.

(* the names of the directory array of a written container: the root entry, unused slots (empty
   name), and the names of the container *)
Lemma parsed_dirs_names : forall c l d, valid_layout c l -> In d (parsed_dirs c l) ->
  d_name d = ROOT_NAME \/ d_name d = [] \/ In (d_name d) (all_names c).
Proof.
  intros c l d Hv Hin. unfold parsed_dirs in Hin. apply in_map_iff in Hin.
  destruct Hin as (i & <- & _).
  destruct (@entry_at_name c l i Hv) as [E|[E|[it [Hit E]]]]; [left; exact E|right; left; exact E|].
  right; right. rewrite E. apply (slot_table_names _ _ _ _ Hit).
Qed.

(* MAIN (ooxml, converse, BYTES): a compound file written from a container without any object of
   that name — in every valid layout, WHATEVER its links — is not reported (an xls workbook handed
   to the xlsx reader, say); the reader goes on to the zip *)
Theorem no_encrypted_package_any_layout : forall c l fuel zip,
  valid_layout c l -> (fuel_for l <= fuel)%nat ->
  mem_name ENCRYPTED_PACKAGE (all_names c) = false ->
  ooxml_check_bytes fuel (cfb_write c l) = Ok tt /\
  ooxml_new_bytes fuel (cfb_write c l) zip = zip.
Proof.
  intros c l fuel zip Hv Hf Hnot.
  destruct (@cfb_new_written c l fuel Hv Hf) as (cf & r & Hnew & Hdirs & _).
  unfold ooxml_new_bytes, ooxml_check_bytes, ooxml_new, ooxml_check, cfb_dirs.
  rewrite Hnew. cbn [obind fst]. rewrite Hdirs.
  destruct (PasswordCfb.has_directory (parsed_dirs c l) ENCRYPTED_PACKAGE) eqn:E;
    [|split; reflexivity].
  exfalso. apply has_directory_sound in E. destruct E as (d & Hin & Hd).
  destruct (parsed_dirs_names c l d Hv Hin) as [H|[H|H]].
  - rewrite H in Hd. vm_compute in Hd. discriminate.
  - rewrite H in Hd. vm_compute in Hd. discriminate.
  - assert (M : mem_name ENCRYPTED_PACKAGE (all_names c) = true)
      by (apply mem_name_spec; exists (d_name d); split; [exact H|exact Hd]).
    rewrite M in Hnot. discriminate.
Qed.

(* MAIN (ooxml, "only then", BYTES): an object named EncryptedPackage that only an EMBEDDED object
   holds (MBD.../EncryptedPackage: an encrypted document embedded in an unprotected file) does not
   make the file count as password protected — since the fix of G8; before it the flat scan
   reported it *)
Theorem nested_encrypted_package_not_password : forall c l fuel zip,
  valid_layout c l -> linked_tree c l -> (fuel_for l <= fuel)%nat ->
  resolve c 0 [ENCRYPTED_PACKAGE] = None ->
  ooxml_check_bytes fuel (cfb_write c l) = Ok tt /\
  ooxml_new_bytes fuel (cfb_write c l) zip = zip.
Proof.
  intros c l fuel zip Hv Ht Hf Hno.
  destruct (@has_directory_root c l Hv Ht fuel Hf) as (cf & r & Hnew & _ & Hhas).
  specialize (Hhas _ ep_plain). rewrite has_directory_is_cfb, Hno in Hhas.
  unfold ooxml_new_bytes, ooxml_check_bytes, ooxml_new, ooxml_check, cfb_dirs.
  rewrite Hnew. cbn [obind fst]. rewrite Hhas. split; reflexivity.
Qed.

(* ================================================================== totality *)
Lemma ooxml_check_fine : forall o : outcome (list dirent),
  (o <> Panic -> ooxml_check o <> Panic) /\ (o <> OutOfFuel -> ooxml_check o <> OutOfFuel).
Proof.
  intros o. unfold ooxml_check. destruct o as [dirs|e| |]; split; intros H; try discriminate;
    try (destruct (PasswordCfb.has_directory dirs ENCRYPTED_PACKAGE); discriminate);
    contradiction.
Qed.

Lemma cfb_dirs_fine : forall fuel file,
  cfb_dirs fuel file <> Panic /\
  (lenN file / 512 < N.of_nat fuel -> cfb_dirs fuel file <> OutOfFuel).
Proof.
  intros fuel file. destruct (cfb_new_total fuel file) as [Hp Hf]. unfold cfb_dirs. split.
  - destruct (cfb_new fuel file) as [cr|e| |]; cbn [obind]; try discriminate. contradiction.
  - intros Hlt. specialize (Hf Hlt).
    destruct (cfb_new fuel file) as [cr|e| |]; cbn [obind]; try discriminate. contradiction.
Qed.

(* MAIN (totality): no file at all makes the model of check_for_password_protected panic, and
   fuel above the number of 512-byte blocks of the file is never exhausted *)
Theorem ooxml_check_bytes_total : forall fuel file,
  ooxml_check_bytes fuel file <> Panic /\
  (lenN file / 512 < N.of_nat fuel -> ooxml_check_bytes fuel file <> OutOfFuel).
Proof.
  intros fuel file. destruct (cfb_dirs_fine fuel file) as [Hp Hf]. unfold ooxml_check_bytes.
  destruct (ooxml_check_fine (cfb_dirs fuel file)) as [H1 H2]. split.
  - apply H1. exact Hp.
  - intros Hlt. apply H2. apply Hf. exact Hlt.
Qed.

Lemma fuel_of_file_enough : forall file, lenN file / 512 < N.of_nat (fuel_of_file file).
Proof.
  intros file. unfold fuel_of_file. rewrite lenN_length.
  rewrite Nat2N.inj_succ, Nat2N.inj_div. change (N.of_nat 512) with 512. lia.
Qed.

Corollary ooxml_check_bytes_no_panic : forall file,
  ooxml_check_bytes (fuel_of_file file) file <> Panic /\
  ooxml_check_bytes (fuel_of_file file) file <> OutOfFuel.
Proof.
  intros file. destruct (ooxml_check_bytes_total (fuel_of_file file) file) as [H1 H2].
  split; [exact H1|]. apply H2. apply fuel_of_file_enough.
Qed.

(* the directory-array step alone: chunks_exact hands from_slice whole entries only *)
Theorem parse_dirs_total : forall chain ss,
  parse_dirs chain ss <> Panic /\ parse_dirs chain ss <> OutOfFuel.
Proof.
  intros chain ss. unfold parse_dirs.
  assert (H : forall ents : list (list N), Forall (fun e => length e = 128%nat) ents ->
            exists ds, map_outcome (fun c => from_slice c ss) ents = Ok ds).
  { intros ents He. destruct (map_outcome_total ss ents He) as (ds & Hds & _). eauto. }
  destruct (H (chunks_exact 128 chain)) as (ds & Hds).
  { apply Forall_forall. intros b Hb. exact (chunks_exact_lengths _ _ _ Hb). }
  rewrite Hds. cbn [obind]. destruct ds; split; discriminate.
Qed.
