(* C08: header-row option on the extracted model.
   hdr lazy  <n|-> <cells r:c:v,...>            cells = non-Empty cells in document order
   hdr eager <n|-> <sr,sc,er,ec|-> <v,v,...>     stored sheet range, row-major values (0 = Empty)
   answer: "r0,c0,r1,c1|v,v/v,v" or "-" (empty range) or "panic" *)
open Conv
open Prelude
open Range
open HeaderRow

let d0 : BinNums.coq_N = BinNums.N0

let show_range (r : BinNums.coq_N range) : string =
  match start r, end_ r with
  | Some s, Some e ->
    Printf.sprintf "%s,%s,%s,%s|%s" (string_of_n (fst s)) (string_of_n (snd s))
      (string_of_n (fst e)) (string_of_n (snd e))
      (String.concat "/" (List.map (fun row -> String.concat "," (List.map string_of_n row)) (rows r)))
  | _ -> "-"

let parse_h s = if s = "-" then FirstNonEmptyRow else HRow (n_of_string s)

let run args =
  match args with
  | "lazy" :: h :: rest ->
    let cs = match rest with [] | [""] -> [] | c :: _ ->
      List.map (fun t -> match String.split_on_char ':' t with
          | [r; c; v] -> ((n_of_string r, n_of_string c), n_of_string v)
          | _ -> failwith "bad cell") (String.split_on_char ',' c) in
    (match lazy_range d0 (parse_h h) cs with
     | Ok r -> show_range r | Panic -> "panic" | Err _ -> "err" | OutOfFuel -> "fuel")
  | "eager" :: h :: box :: rest ->
    let sheet =
      if box = "-" then empty else
        match List.map n_of_string (String.split_on_char ',' box) with
        | [sr; sc; er; ec] ->
          let vals = match rest with [] | [""] -> [] | v :: _ -> List.map n_of_string (String.split_on_char ',' v) in
          { r_start = (sr, sc); r_end = (er, ec); r_inner = vals }
        | _ -> failwith "bad box" in
    (match eager_range d0 (parse_h h) sheet with
     | Ok r -> show_range r | Panic -> "panic" | Err _ -> "err" | OutOfFuel -> "fuel")
  | _ -> "bad-args"

let () = Registry.register "hdr" run
let init () = ()
