// Generic end-to-end command: open a workbook file with one of the readers and run a sequence
// of public-API calls, printing every result canonically.
//   args[0] = xlsx | xlsb | xls | ods | auto
//   args[1] = path of the file
//   args[2] = calls separated by ';' (names are hex of UTF-8):
//       hdr <n> | hdr - | range <name> | ref <name> | at <n> | atref <n> | formula <name> |
//       wsall | sheets | meta | names | merges <name> | mergesat <n> | allmerges | tables |
//       table <name> | vba
// Output: one field per call joined by ";;".  Open failure: "openerr:<class>".
use crate::util::*;
use calamine::{
    open_workbook_auto_from_rs, Data, DataRef, Error, HeaderRow, Ods, OdsError, Range, Reader,
    ReaderRef, SheetType, SheetVisible, Sheets, Xls, XlsError, Xlsb, XlsbError, Xlsx, XlsxError,
};
use std::io::Cursor;

type RS = Cursor<Vec<u8>>;

pub enum Wb {
    Xlsx(Xlsx<RS>),
    Xlsb(Xlsb<RS>),
    Xls(Xls<RS>),
    Ods(Ods<RS>),
    Auto(Sheets<RS>),
}

pub fn range_str(r: &Range<Data>) -> String {
    match (r.start(), r.end()) {
        (Some(s), Some(e)) => {
            let rows: Vec<String> = r
                .rows()
                .map(|row| row.iter().map(data_str).collect::<Vec<_>>().join(","))
                .collect();
            format!("R[{},{},{},{}|{}]", s.0, s.1, e.0, e.1, rows.join("/"))
        }
        _ => "R[-]".to_string(),
    }
}
pub fn range_ref_str(r: &Range<DataRef>) -> String {
    match (r.start(), r.end()) {
        (Some(s), Some(e)) => {
            let rows: Vec<String> = r
                .rows()
                .map(|row| row.iter().map(dataref_str).collect::<Vec<_>>().join(","))
                .collect();
            format!("R[{},{},{},{}|{}]", s.0, s.1, e.0, e.1, rows.join("/"))
        }
        _ => "R[-]".to_string(),
    }
}
pub fn range_string_str(r: &Range<String>) -> String {
    match (r.start(), r.end()) {
        (Some(s), Some(e)) => {
            let rows: Vec<String> = r
                .rows()
                .map(|row| row.iter().map(|s| hexstr(s)).collect::<Vec<_>>().join(","))
                .collect();
            format!("R[{},{},{},{}|{}]", s.0, s.1, e.0, e.1, rows.join("/"))
        }
        _ => "R[-]".to_string(),
    }
}

fn xlsx_err(e: &XlsxError) -> &'static str {
    match e {
        XlsxError::Password => "password",
        XlsxError::WorksheetNotFound(_) => "notfound",
        _ => "other",
    }
}
fn xlsb_err(e: &XlsbError) -> &'static str {
    match e {
        XlsbError::Password => "password",
        XlsbError::WorksheetNotFound(_) => "notfound",
        _ => "other",
    }
}
fn xls_err(e: &XlsError) -> &'static str {
    match e {
        XlsError::Password => "password",
        XlsError::WorksheetNotFound(_) => "notfound",
        _ => "other",
    }
}
fn ods_err(e: &OdsError) -> &'static str {
    match e {
        OdsError::Password => "password",
        OdsError::WorksheetNotFound(_) => "notfound",
        _ => "other",
    }
}
fn any_err(e: &Error) -> &'static str {
    match e {
        Error::Xlsx(e) => xlsx_err(e),
        Error::Xlsb(e) => xlsb_err(e),
        Error::Xls(e) => xls_err(e),
        Error::Ods(e) => ods_err(e),
        _ => "other",
    }
}

pub fn open(fmt: &str, bytes: Vec<u8>) -> Result<Wb, String> {
    // "<fmt>+<n>" / "<fmt>+all": the reader handed over does not stand at offset 0 (the caller has
    // read n bytes, or the whole file, before: sniffing a signature, hashing the file)
    let (fmt, skip) = match fmt.split_once('+') {
        Some((f, "all")) => (f, bytes.len() as u64),
        Some((f, n)) => (f, n.parse::<u64>().unwrap_or(0).min(bytes.len() as u64)),
        None => (fmt, 0),
    };
    let mut cur = Cursor::new(bytes);
    cur.set_position(skip);
    match fmt {
        "xlsx" => Xlsx::new(cur).map(Wb::Xlsx).map_err(|e| xlsx_err(&e).to_string()),
        "xlsb" => Xlsb::new(cur).map(Wb::Xlsb).map_err(|e| xlsb_err(&e).to_string()),
        "xls" => Xls::new(cur).map(Wb::Xls).map_err(|e| xls_err(&e).to_string()),
        // "xls@<n>": the header-row option given at open time (XlsOptions) instead of afterwards
        f if f.starts_with("xls@") => {
            let mut o = calamine::XlsOptions::default();
            o.header_row = match f[4..].parse::<u32>() {
                Ok(n) => HeaderRow::Row(n),
                Err(_) => HeaderRow::FirstNonEmptyRow,
            };
            Xls::new_with_options(cur, o).map(Wb::Xls).map_err(|e| xls_err(&e).to_string())
        }
        "ods" => Ods::new(cur).map(Wb::Ods).map_err(|e| ods_err(&e).to_string()),
        "auto" => open_workbook_auto_from_rs(cur)
            .map(Wb::Auto)
            .map_err(|e| any_err(&e).to_string()),
        _ => Err("badfmt".to_string()),
    }
}

macro_rules! each {
    ($wb:expr, $x:ident => $body:expr) => {
        match $wb {
            Wb::Xlsx($x) => $body,
            Wb::Xlsb($x) => $body,
            Wb::Xls($x) => $body,
            Wb::Ods($x) => $body,
            Wb::Auto($x) => $body,
        }
    };
}

fn res_range<E>(r: Result<Range<Data>, E>, cls: impl Fn(&E) -> &'static str) -> String {
    match r {
        Ok(r) => range_str(&r),
        Err(e) => format!("err:{}", cls(&e)),
    }
}

fn vis(v: SheetVisible) -> &'static str {
    match v {
        SheetVisible::Visible => "v",
        SheetVisible::Hidden => "h",
        SheetVisible::VeryHidden => "vh",
    }
}
fn typ(t: SheetType) -> &'static str {
    match t {
        SheetType::WorkSheet => "ws",
        SheetType::DialogSheet => "dlg",
        SheetType::MacroSheet => "mac",
        SheetType::ChartSheet => "chart",
        SheetType::Vba => "vba",
    }
}

fn dims_str(d: &calamine::Dimensions) -> String {
    format!("{},{},{},{}", d.start.0, d.start.1, d.end.0, d.end.1)
}

pub fn call(wb: &mut Wb, c: &str) -> String {
    let f: Vec<&str> = c.split(' ').collect();
    let name = |i: usize| -> String { String::from_utf8_lossy(&unhex(f.get(i).copied().unwrap_or(""))).into_owned() };
    match f[0] {
        "hdr" => {
            let h = if f[1] == "-" {
                HeaderRow::FirstNonEmptyRow
            } else {
                HeaderRow::Row(f[1].parse::<u64>().unwrap() as u32)
            };
            each!(wb, x => { x.with_header_row(h); });
            "ok".to_string()
        }
        "range" => {
            let n = name(1);
            match wb {
                Wb::Xlsx(x) => res_range(x.worksheet_range(&n), xlsx_err),
                Wb::Xlsb(x) => res_range(x.worksheet_range(&n), xlsb_err),
                Wb::Xls(x) => res_range(x.worksheet_range(&n), xls_err),
                Wb::Ods(x) => res_range(x.worksheet_range(&n), ods_err),
                Wb::Auto(x) => res_range(x.worksheet_range(&n), any_err),
            }
        }
        "ref" => {
            let n = name(1);
            match wb {
                Wb::Xlsx(x) => match x.worksheet_range_ref(&n) {
                    Ok(r) => range_ref_str(&r),
                    Err(e) => format!("err:{}", xlsx_err(&e)),
                },
                Wb::Xlsb(x) => match x.worksheet_range_ref(&n) {
                    Ok(r) => range_ref_str(&r),
                    Err(e) => format!("err:{}", xlsb_err(&e)),
                },
                Wb::Auto(x) => match x.worksheet_range_ref(&n) {
                    Ok(r) => range_ref_str(&r),
                    Err(e) => format!("err:{}", any_err(&e)),
                },
                _ => "unsupported".to_string(),
            }
        }
        "at" => {
            let n: usize = f[1].parse().unwrap();
            match wb {
                Wb::Xlsx(x) => x.worksheet_range_at(n).map_or("none".to_string(), |r| res_range(r, xlsx_err)),
                Wb::Xlsb(x) => x.worksheet_range_at(n).map_or("none".to_string(), |r| res_range(r, xlsb_err)),
                Wb::Xls(x) => x.worksheet_range_at(n).map_or("none".to_string(), |r| res_range(r, xls_err)),
                Wb::Ods(x) => x.worksheet_range_at(n).map_or("none".to_string(), |r| res_range(r, ods_err)),
                Wb::Auto(x) => x.worksheet_range_at(n).map_or("none".to_string(), |r| res_range(r, any_err)),
            }
        }
        "atref" => {
            let n: usize = f[1].parse().unwrap();
            match wb {
                Wb::Xlsx(x) => match x.worksheet_range_at_ref(n) {
                    None => "none".to_string(),
                    Some(Ok(r)) => range_ref_str(&r),
                    Some(Err(e)) => format!("err:{}", xlsx_err(&e)),
                },
                Wb::Xlsb(x) => match x.worksheet_range_at_ref(n) {
                    None => "none".to_string(),
                    Some(Ok(r)) => range_ref_str(&r),
                    Some(Err(e)) => format!("err:{}", xlsb_err(&e)),
                },
                _ => "unsupported".to_string(),
            }
        }
        "formula" => {
            let n = name(1);
            match wb {
                Wb::Xlsx(x) => x.worksheet_formula(&n).map(|r| range_string_str(&r)).unwrap_or_else(|e| format!("err:{}", xlsx_err(&e))),
                Wb::Xlsb(x) => x.worksheet_formula(&n).map(|r| range_string_str(&r)).unwrap_or_else(|e| format!("err:{}", xlsb_err(&e))),
                Wb::Xls(x) => x.worksheet_formula(&n).map(|r| range_string_str(&r)).unwrap_or_else(|e| format!("err:{}", xls_err(&e))),
                Wb::Ods(x) => x.worksheet_formula(&n).map(|r| range_string_str(&r)).unwrap_or_else(|e| format!("err:{}", ods_err(&e))),
                Wb::Auto(x) => x.worksheet_formula(&n).map(|r| range_string_str(&r)).unwrap_or_else(|e| format!("err:{}", any_err(&e))),
            }
        }
        "wsall" => {
            let mut v: Vec<(String, Range<Data>)> = each!(wb, x => x.worksheets());
            v.sort_by(|a, b| a.0.cmp(&b.0));
            v.iter()
                .map(|(n, r)| format!("{}={}", hexstr(n), range_str(r)))
                .collect::<Vec<_>>()
                .join("&")
        }
        "sheets" => {
            let v: Vec<String> = each!(wb, x => x.sheet_names());
            v.iter().map(|n| hexstr(n)).collect::<Vec<_>>().join(",")
        }
        "meta" => {
            let v: Vec<calamine::Sheet> = each!(wb, x => x.sheets_metadata().to_vec());
            v.iter()
                .map(|s| format!("{}:{}:{}", hexstr(&s.name), vis(s.visible), typ(s.typ)))
                .collect::<Vec<_>>()
                .join(",")
        }
        "names" => {
            let v: Vec<(String, String)> = each!(wb, x => x.defined_names().to_vec());
            v.iter()
                .map(|(n, f)| format!("{}={}", hexstr(n), hexstr(f)))
                .collect::<Vec<_>>()
                .join(",")
        }
        "merges" => {
            let n = name(1);
            match wb {
                Wb::Xlsx(x) => match x.worksheet_merge_cells(&n) {
                    None => "none".to_string(),
                    Some(Ok(v)) => v.iter().map(dims_str).collect::<Vec<_>>().join("/"),
                    Some(Err(e)) => format!("err:{}", xlsx_err(&e)),
                },
                Wb::Xls(x) => match x.worksheet_merge_cells(&n) {
                    None => "none".to_string(),
                    Some(v) => v.iter().map(dims_str).collect::<Vec<_>>().join("/"),
                },
                _ => "unsupported".to_string(),
            }
        }
        "mergesat" => {
            let n: usize = f[1].parse().unwrap();
            match wb {
                Wb::Xlsx(x) => match x.worksheet_merge_cells_at(n) {
                    None => "none".to_string(),
                    Some(Ok(v)) => v.iter().map(dims_str).collect::<Vec<_>>().join("/"),
                    Some(Err(e)) => format!("err:{}", xlsx_err(&e)),
                },
                Wb::Xls(x) => match x.worksheet_merge_cells_at(n) {
                    None => "none".to_string(),
                    Some(v) => v.iter().map(dims_str).collect::<Vec<_>>().join("/"),
                },
                _ => "unsupported".to_string(),
            }
        }
        "allmerges" => match wb {
            Wb::Xlsx(x) => match x.load_merged_regions() {
                Err(e) => format!("err:{}", xlsx_err(&e)),
                Ok(()) => x
                    .merged_regions()
                    .iter()
                    .map(|(s, p, d)| format!("{}:{}:{}", hexstr(s), hexstr(p), dims_str(d)))
                    .collect::<Vec<_>>()
                    .join("/"),
            },
            _ => "unsupported".to_string(),
        },
        "mergesby" => {
            let n = name(1);
            match wb {
                Wb::Xlsx(x) => match x.load_merged_regions() {
                    Err(e) => format!("err:{}", xlsx_err(&e)),
                    Ok(()) => x
                        .merged_regions_by_sheet(&n)
                        .iter()
                        .map(|(s, p, d)| format!("{}:{}:{}", hexstr(s), hexstr(p), dims_str(d)))
                        .collect::<Vec<_>>()
                        .join("/"),
                },
                _ => "unsupported".to_string(),
            }
        }
        "tables" => match wb {
            Wb::Xlsx(x) => match x.load_tables() {
                Err(e) => format!("err:{}", xlsx_err(&e)),
                Ok(()) => {
                    let names: Vec<String> = x.table_names().iter().map(|s| hexstr(s)).collect();
                    names.join(",")
                }
            },
            _ => "unsupported".to_string(),
        },
        "tablesin" => {
            let n = name(1);
            match wb {
                Wb::Xlsx(x) => match x.load_tables() {
                    Err(e) => format!("err:{}", xlsx_err(&e)),
                    Ok(()) => x
                        .table_names_in_sheet(&n)
                        .iter()
                        .map(|s| hexstr(s))
                        .collect::<Vec<_>>()
                        .join(","),
                },
                _ => "unsupported".to_string(),
            }
        }
        "table" => {
            let n = name(1);
            match wb {
                Wb::Xlsx(x) => {
                    if let Err(e) = x.load_tables() {
                        return format!("err:{}", xlsx_err(&e));
                    }
                    match x.table_by_name(&n) {
                        Err(e) => format!("err:{}", xlsx_err(&e)),
                        Ok(t) => format!(
                            "{}|{}|{}|{}",
                            hexstr(t.name()),
                            hexstr(t.sheet_name()),
                            t.columns().iter().map(|c| hexstr(c)).collect::<Vec<_>>().join(","),
                            range_str(t.data())
                        ),
                    }
                }
                _ => "unsupported".to_string(),
            }
        }
        // ---- raw cache operations of the xlsx reader (C07 cache model): the load calls and the
        // reading calls separately; a reading call on a cache that was never loaded panics by
        // contract (.expect), which is answered "panic" without ending the call sequence
        "loadmerges" => match wb {
            Wb::Xlsx(x) => match x.load_merged_regions() {
                Err(_) => "loaded:0".to_string(),
                Ok(()) => "loaded:1".to_string(),
            },
            _ => "unsupported".to_string(),
        },
        "loadtables" => match wb {
            Wb::Xlsx(x) => match x.load_tables() {
                Err(_) => "loaded:0".to_string(),
                Ok(()) => "loaded:1".to_string(),
            },
            _ => "unsupported".to_string(),
        },
        "rawmerges" | "rawmergesby" | "rawtables" | "rawtablesin" | "rawtable" => {
            let n = name(1);
            match wb {
                Wb::Xlsx(x) => {
                    let op = f[0];
                    let r = std::panic::catch_unwind(std::panic::AssertUnwindSafe(|| match op {
                        "rawmerges" => x
                            .merged_regions()
                            .iter()
                            .map(|(s, p, d)| format!("{}:{}:{}", hexstr(s), hexstr(p), dims_str(d)))
                            .collect::<Vec<_>>()
                            .join("/"),
                        "rawmergesby" => x
                            .merged_regions_by_sheet(&n)
                            .iter()
                            .map(|(s, p, d)| format!("{}:{}:{}", hexstr(s), hexstr(p), dims_str(d)))
                            .collect::<Vec<_>>()
                            .join("/"),
                        "rawtables" => x.table_names().iter().map(|s| hexstr(s)).collect::<Vec<_>>().join(","),
                        "rawtablesin" => x
                            .table_names_in_sheet(&n)
                            .iter()
                            .map(|s| hexstr(s))
                            .collect::<Vec<_>>()
                            .join(","),
                        _ => match x.table_by_name(&n) {
                            Err(e) => format!("err:{}", xlsx_err(&e)),
                            Ok(t) => format!(
                                "{}|{}|{}|{}",
                                hexstr(t.name()),
                                hexstr(t.sheet_name()),
                                t.columns().iter().map(|c| hexstr(c)).collect::<Vec<_>>().join(","),
                                range_str(t.data())
                            ),
                        },
                    }));
                    match r {
                        Ok(s) => s,
                        Err(_) => "panic".to_string(),
                    }
                }
                _ => "unsupported".to_string(),
            }
        }
        // "cellsmix <sheet>": the xlsb cells reader driven alternately — k times next_formula,
        // then next_cell to the end, for k = 1, 2, 3 — must continue with the cells that follow the
        // k-th formula cell in the stream (what a pure next_cell run yields behind it)
        "cellsmix" => {
            let n = name(1);
            match wb {
                Wb::Xlsb(x) => {
                    let mut all: Vec<((u32, u32), String)> = Vec::new();
                    match x.worksheet_cells_reader(&n) {
                        Ok(mut r) => loop {
                            match r.next_cell() {
                                Ok(Some(c)) => all.push((c.get_position(), dataref_str(c.get_value()))),
                                Ok(None) => break,
                                Err(_) => return "err".to_string(),
                            }
                        },
                        Err(_) => return "err".to_string(),
                    }
                    for k in 1..=3usize {
                        let mut r = match x.worksheet_cells_reader(&n) {
                            Ok(r) => r,
                            Err(_) => return "err".to_string(),
                        };
                        let mut last = None;
                        for _ in 0..k {
                            match r.next_formula() {
                                Ok(Some(c)) => last = Some(c.get_position()),
                                Ok(None) => {
                                    last = None;
                                    break;
                                }
                                Err(_) => return "err".to_string(),
                            }
                        }
                        let Some(pos) = last else { break };
                        let Some(at) = all.iter().position(|(p, _)| *p == pos) else {
                            // a formula cell without a cached value the cell reader returns: nothing to compare
                            continue;
                        };
                        let mut got: Vec<((u32, u32), String)> = Vec::new();
                        loop {
                            match r.next_cell() {
                                Ok(Some(c)) => got.push((c.get_position(), dataref_str(c.get_value()))),
                                Ok(None) => break,
                                Err(_) => return format!("MIXMISMATCH:k={}:error after next_formula", k),
                            }
                        }
                        if got[..] != all[at + 1..] {
                            return format!("MIXMISMATCH:k={}:{} cells instead of {}", k, got.len(), all.len() - at - 1);
                        }
                    }
                    "ok".to_string()
                }
                _ => "unsupported".to_string(),
            }
        }
        "vba" => {
            let r = each!(wb, x => x.vba_project().map(|r| r.map(|v| v.into_owned()).map_err(|_| ())));
            match r {
                None => "none".to_string(),
                Some(Err(())) => "err".to_string(),
                Some(Ok(v)) => {
                    let mut names: Vec<String> = v.get_module_names().iter().map(|s| s.to_string()).collect();
                    names.sort();
                    let mods: Vec<String> = names
                        .iter()
                        .map(|n| {
                            let raw = v.get_module_raw(n).map(hex).unwrap_or_else(|_| "err".to_string());
                            let txt = v.get_module(n).map(|s| hexstr(&s)).unwrap_or_else(|_| "err".to_string());
                            format!("{}:{}:{}", hexstr(n), raw, txt)
                        })
                        .collect();
                    let refs: Vec<String> = v
                        .get_references()
                        .iter()
                        .map(|r| format!("{}:{}:{}", hexstr(&r.name), hexstr(&r.description), hexstr(&r.path.to_string_lossy())))
                        .collect();
                    format!("M[{}]F[{}]", mods.join(","), refs.join(","))
                }
            }
        }
        "everything" => {
            // every read call on every sheet / table; results are discarded (robustness runs)
            let names: Vec<String> = each!(wb, x => x.sheet_names());
            let _ = each!(wb, x => x.sheets_metadata().len());
            let _ = each!(wb, x => x.defined_names().len());
            for n in &names {
                let hn = hexstr(n);
                for c in ["range", "ref", "formula", "merges"] {
                    let _ = call(wb, &format!("{} {}", c, hn));
                }
            }
            let _ = call(wb, "wsall");
            let _ = call(wb, "allmerges");
            let t = call(wb, "tables");
            if !t.starts_with("err") && t != "unsupported" {
                for tn in t.split(',').filter(|s| !s.is_empty()) {
                    let _ = call(wb, &format!("table {}", tn));
                }
            }
            let _ = call(wb, "vba");
            let _ = call(wb, "hdr 2");
            for n in names.iter().take(3) {
                let _ = call(wb, &format!("range {}", hexstr(n)));
            }
            "done".to_string()
        }
        other => format!("badcall:{}", other),
    }
}

/// VH_STACK_MB=<n>: run the case on a thread with an n MiB stack (the size a program gets by
/// default), so that unbounded recursion overflows it and is seen as an abort instead of being
/// absorbed by the unlimited stack the driver gives the process.  Panics are caught inside the
/// thread and answered as "panic<TAB>info" / "alloc<TAB>info" like the per-call ones.
pub fn run(args: &[&str]) -> String {
    let mb = std::env::var("VH_STACK_MB").ok().and_then(|v| v.parse::<usize>().ok());
    let Some(mb) = mb else {
        return run_inner(args);
    };
    let owned: Vec<String> = args.iter().map(|s| s.to_string()).collect();
    let child = std::thread::Builder::new().stack_size(mb << 20).spawn(move || {
        let a: Vec<&str> = owned.iter().map(|s| s.as_str()).collect();
        match std::panic::catch_unwind(std::panic::AssertUnwindSafe(|| run_inner(&a))) {
            Ok(s) => s,
            Err(_) => {
                let kind = if crate::ALLOC_TRIPPED.load(std::sync::atomic::Ordering::Relaxed) {
                    "alloc"
                } else {
                    "panic"
                };
                if crate::verbose_panics() {
                    format!("{}\t{}", kind, crate::last_panic())
                } else {
                    kind.to_string()
                }
            }
        }
    });
    match child.map(|c| c.join()) {
        Ok(Ok(s)) => s,
        _ => "panic".to_string(),
    }
}

fn run_inner(args: &[&str]) -> String {
    let bytes = match std::fs::read(args[1]) {
        Ok(b) => b,
        Err(_) => return "nofile".to_string(),
    };
    crate::set_relative_alloc_cap(bytes.len());
    let mut wb = match open(args[0], bytes) {
        Ok(w) => w,
        Err(c) => return format!("openerr:{}", c),
    };
    let kind = match &wb {
        Wb::Auto(Sheets::Xlsx(_)) => "auto=xlsx;;",
        Wb::Auto(Sheets::Xlsb(_)) => "auto=xlsb;;",
        Wb::Auto(Sheets::Xls(_)) => "auto=xls;;",
        Wb::Auto(Sheets::Ods(_)) => "auto=ods;;",
        _ => "",
    };
    let mut out = Vec::new();
    if args.len() > 2 && !args[2].is_empty() {
        for c in args[2].split(';') {
            let r = std::panic::catch_unwind(std::panic::AssertUnwindSafe(|| call(&mut wb, c)));
            match r {
                Ok(s) => out.push(s),
                Err(_) => {
                    let kind = if crate::ALLOC_TRIPPED.load(std::sync::atomic::Ordering::Relaxed) {
                        "alloc"
                    } else {
                        "panic"
                    };
                    if crate::verbose_panics() {
                        out.push(format!("{}\t{}", kind, crate::last_panic()));
                    } else {
                        out.push(kind.to_string());
                    }
                    break;
                }
            }
        }
    }
    format!("{}{}", kind, out.join(";;"))
}
