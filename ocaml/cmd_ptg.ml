(* C14: the two formula decoders (extracted Ptg model), the encoders and the rendering spec.
     ptg     xls  SHEETS NAMES XTIS HEX      model outcome on raw bytes (same format as vh ptg)
             xls@R:C …                       the same with the base cell (R, C) of a shared formula
                                             (PtgRefN / PtgAreaN are decoded relative to it)
     ptg     xlsb SHEETS NAMES HEX
     ptg_ast xls  SHEETS NAMES XTIS AST [LINKS]            ->  hex(encoding)|model|spec|known|wf
     ptg_ast xlsb SHEETS NAMES AST [LINKS XTIS BUNDLE]
        LINKS: the supporting links of the file in record order, comma-separated: self | same | addin |
        ext:TAB/TAB/… (hex of the UTF-8 sheet names of the other workbook, "." = empty name).  With LINKS the
        spec is the text through the links (Ptg.render_xls_links / FormulaEnv.spec_extern_links_xlsb) and
        known is the class Ptg.known_C14 (K_EXTERN_BOOK) or "-".  xlsb: XTIS (link:first:last as u32) and
        BUNDLE (the sheets of the workbook) are what SHEETS was resolved from — checked: SHEETS must be
        FormulaEnv.spec_extern_xlsb BUNDLE XTIS.
   SHEETS / NAMES: comma-separated hex of UTF-8 names ("-" = empty list, "." = empty name);
   XTIS: sup:first:last,… (raw u16, "-" = none).  AST: prefix notation, see tools/props/c14.py. *)
open Conv
open Prelude
open Ptg

(* ---- Rust's Display for f64: core::num::flt2dec shortest digits (Dragon, exact), printed
   without an exponent.  Big numbers are the extracted Coq N (no external bignum library). ---- *)
module B = BinNat.N
let n2 = n_of_int 2 and n10b = n_of_int 10
let rec pow2 (e : int) : BinNums.coq_N =          (* 2^e *)
  let rec p e = if e = 0 then BinNums.Coq_xH else BinNums.Coq_xO (p (e - 1)) in BinNums.Npos (p e)
let mul10 x = B.mul x n10b
let rec mul_pow10 x k = if k <= 0 then x else mul_pow10 (mul10 x) (k - 1)
let cmp a b = match B.compare a b with Datatypes.Lt -> -1 | Datatypes.Eq -> 0 | Datatypes.Gt -> 1

let shortest_digits (bits : int64) : string * int =
  (* returns (digits, k) with value = 0.digits * 10^k; bits: finite, non-zero, sign ignored *)
  let frac = Int64.logand bits 0xFFFFFFFFFFFFFL in
  let ebits = Int64.to_int (Int64.logand (Int64.shift_right_logical bits 52) 0x7FFL) in
  (* Float::integer_decode *)
  let mant0 = if ebits = 0 then Int64.shift_left frac 1 else Int64.logor frac 0x10000000000000L in
  let exp0 = ebits - 1075 in
  let even = Int64.logand mant0 1L = 0L in
  (* flt2dec::decoder::decode *)
  let (mant, minus, plus, exp) =
    if ebits = 0 then (mant0, 1, 1, exp0)
    else if mant0 = 0x10000000000000L then (Int64.shift_left mant0 2, 1, 2, exp0 - 2)
    else (Int64.shift_left mant0 1, 1, 1, exp0 - 1) in
  let big64 (x : int64) = n_of_string (Printf.sprintf "%Lu" x) in
  let m = ref (big64 mant) and mi = ref (n_of_int minus) and pl = ref (n_of_int plus) in
  let scale = ref (n_of_int 1) in
  if exp < 0 then scale := pow2 (-exp)
  else begin let f = pow2 exp in m := B.mul !m f; mi := B.mul !mi f; pl := B.mul !pl f end;
  (* a.cmp(b) < rounding: inclusive -> a <= b, exclusive -> a < b *)
  let lt_r a b = if even then cmp a b <= 0 else cmp a b < 0 in
  let up_cond () = lt_r !scale (B.add !m !pl) in
  (* smallest k with value + plus below 10^k (in the sense of up_cond) *)
  let a = abs_float (Int64.float_of_bits bits) in
  let k = ref (int_of_float (floor (log10 a)) + 1) in
  if !k >= 0 then scale := mul_pow10 !scale !k
  else begin m := mul_pow10 !m (- !k); mi := mul_pow10 !mi (- !k); pl := mul_pow10 !pl (- !k) end;
  while up_cond () do incr k; scale := mul10 !scale done;
  let continue = ref true in
  while !continue do
    (* would k-1 still satisfy "not up"? *)
    let m10 = mul10 !m and pl10 = mul10 !pl in
    if lt_r !scale (B.add m10 pl10) then continue := false
    else begin decr k; m := m10; pl := pl10; mi := mul10 !mi end
  done;
  m := mul10 !m; mi := mul10 !mi; pl := mul10 !pl;
  let buf = Buffer.create 20 in
  let fin = ref false and up = ref false and down = ref false in
  while not !fin do
    let d = ref 0 in
    while cmp !m !scale >= 0 do m := B.sub !m !scale; incr d done;
    Buffer.add_char buf (Char.chr (48 + !d));
    down := lt_r !m !mi;
    up := lt_r !scale (B.add !m !pl);
    if !down || !up then fin := true
    else begin m := mul10 !m; mi := mul10 !mi; pl := mul10 !pl end
  done;
  let ds = Bytes.of_string (Buffer.contents buf) in
  let kk = ref !k in
  let res =
    if !up && (not !down || cmp (B.mul !m n2) !scale >= 0) then begin
      (* round_up *)
      let n = Bytes.length ds in
      let i = ref (n - 1) in
      while !i >= 0 && Bytes.get ds !i = '9' do decr i done;
      if !i >= 0 then begin
        Bytes.set ds !i (Char.chr (Char.code (Bytes.get ds !i) + 1));
        for j = !i + 1 to n - 1 do Bytes.set ds j '0' done;
        Bytes.to_string ds
      end else begin
        incr kk;
        "1" ^ String.make (n - 1) '0' ^ "0"
      end
    end else Bytes.to_string ds in
  (res, !kk)

let show_f64_bits (bits : int64) : string =
  let x = Int64.float_of_bits bits in
  if x <> x then "NaN"
  else if x = infinity then "inf"
  else if x = neg_infinity then "-inf"
  else begin
    let neg = bits < 0L in
    let body =
      if x = 0.0 then "0" else begin
        let (ds, e) = shortest_digits (Int64.logand bits 0x7FFFFFFFFFFFFFFFL) in
        let n = String.length ds in
        if e <= 0 then "0." ^ String.make (-e) '0' ^ ds
        else if e < n then String.sub ds 0 e ^ "." ^ String.sub ds e (n - e)
        else ds ^ String.make (e - n) '0'
      end in
    (if neg then "-" else "") ^ body
  end

let show_f64 (bits : BinNums.coq_N) : BinNums.coq_N list =
  (* bits < 2^64: go through the decimal text to avoid 63-bit int overflow *)
  let s = show_f64_bits (Int64.of_string ("0u" ^ string_of_n bits)) in
  List.init (String.length s) (fun i -> n_of_int (Char.code s.[i]))

(* ---- environments ---- *)
let name_list (s : string) : BinNums.coq_N list list =
  if s = "-" then [] else
    List.map (fun h -> if h = "." then [] else scalars_of_hex h) (String.split_on_char ',' s)
let xti_list (s : string) =
  if s = "-" then [] else
    List.map (fun t -> match String.split_on_char ':' t with
        | [a; b; c] -> ((n_of_string a, n_of_string b), n_of_string c)
        | _ -> failwith "bad xti") (String.split_on_char ',' s)

let links_list (s : string) : suplink list =
  if s = "-" || s = "" then [] else
    List.map (fun t ->
        if t = "self" then SupSelf else if t = "same" then SupSame else if t = "addin" then SupAddin
        else if String.length t >= 4 && String.sub t 0 4 = "ext:" then begin
          let r = String.sub t 4 (String.length t - 4) in
          SupExt (if r = "" then [] else
                    List.map (fun h -> if h = "." then [] else scalars_of_hex h) (String.split_on_char '/' r))
        end else failwith "bad link") (String.split_on_char ',' s)
let known_str (o : BinNums.coq_N option) : string =
  match o with None -> "-" | Some _ -> "K_EXTERN_BOOK"

let out_str (o : BinNums.coq_N list outcome) : string =
  match o with
  | Ok s -> "ok:" ^ hex_of_scalars s
  | Err _ -> "err"
  | Panic -> "panic"
  | OutOfFuel -> "fuel"

(* ---- AST parser (prefix notation) ---- *)
let parse_ast (toks : string array) : expr =
  let i = ref 0 in
  let next () = let t = toks.(!i) in incr i; t in
  let n () = n_of_string (next ()) in
  let b () = (next () = "1") in
  let k () = match next () with "r" -> CRef | "v" -> CVal | "a" -> CArr | _ -> failwith "cls" in
  let cref () =
    let r = n () in let c = n () in let rr = b () in let cr = b () in
    { cr_row = r; cr_col = c; cr_row_rel = rr; cr_col_rel = cr } in
  let chars () =
    let t = next () in
    if t = "-" then [] else List.map n_of_string (String.split_on_char '.' t) in
  let rec e () : expr =
    match next () with
    | "ref" -> let kk = k () in let a = cref () in ERef (kk, a)
    | "area" -> let kk = k () in let a = cref () in let bb = cref () in EArea (kk, a, bb)
    | "ref3" -> let kk = k () in let ix = n () in let a = cref () in ERef3d (kk, ix, a)
    | "area3" -> let kk = k () in let ix = n () in let a = cref () in let bb = cref () in
      EArea3d (kk, ix, a, bb)
    | "refn" -> let kk = k () in let a = cref () in ERefN (kk, a)
    | "arean" -> let kk = k () in let a = cref () in let bb = cref () in EAreaN (kk, a, bb)
    | "referr" -> let kk = k () in let j = chars () in ERefErr (kk, j)
    | "areaerr" -> let kk = k () in let j = chars () in EAreaErr (kk, j)
    | "referr3" -> let kk = k () in let ix = n () in let j = chars () in ERefErr3d (kk, ix, j)
    | "areaerr3" -> let kk = k () in let ix = n () in let j = chars () in EAreaErr3d (kk, ix, j)
    | "mem" -> let kk = k () in
      let m = (match next () with "area" -> MArea | "err" -> MErr | "nomem" -> MNoMem | "func" -> MFunc
                                | _ -> failwith "memkind") in
      let w = n () in let a = e () in EMem (kk, m, w, a)
    | "name" -> let kk = k () in let ix = n () in EName (kk, ix)
    | "int" -> let v = n () in EInt v
    | "num" -> let v = n () in ENum v
    | "str" -> let w = b () in let s = chars () in EStr (w, s)
    | "bool" -> let v = b () in EBool v
    | "err" -> let v = n () in EErr v
    | "miss" -> EMissArg
    | "un" -> let op = (match next () with "+" -> UPlus | "-" -> UMinus | _ -> UPercent) in
      let a = e () in EUn (op, a)
    | "bin" -> let op = n () in let a = e () in let bb = e () in EBin (op, a, bb)
    | "par" -> let a = e () in EParen a
    | "func" -> let kk = k () in let ift = n () in let cnt = int_of_string (next ()) in
      let args = list cnt in EFunc (kk, ift, args)
    | "fvar" -> let kk = k () in let ift = n () in let cnt = int_of_string (next ()) in
      let args = list cnt in EFuncVar (kk, ift, args)
    | "sum" -> let a = e () in ESum a
    | "attr" -> let et = n () in let w = n () in let a = e () in EAttrSkip (et, w, a)
    | "post" -> let et = n () in let w = n () in let a = e () in EAttrPost (et, w, a)
    | "chs" -> let cnt = int_of_string (next ()) in
      let rec offs k = if k <= 0 then [] else (let o = n () in o :: offs (k - 1)) in
      let os = offs cnt in let a = e () in EAttrChoose (os, a)
    | t -> failwith ("bad ast token " ^ t)
  and list cnt = if cnt <= 0 then [] else (let x = e () in x :: list (cnt - 1)) in
  e ()

let opt_n (o : BinNums.coq_N option) = match o with Some v -> string_of_n v | None -> "-"

(* "xls" or "xls@R:C" -> the base cell *)
let xls_base (fmt : string) : (BinNums.coq_N * BinNums.coq_N) option option =
  if fmt = "xls" then Some None
  else if String.length fmt > 4 && String.sub fmt 0 4 = "xls@" then
    (match String.split_on_char ':' (String.sub fmt 4 (String.length fmt - 4)) with
     | [r; c] -> Some (Some (n_of_string r, n_of_string c))
     | _ -> None)
  else None

(* "xlsb" or "xlsb@R:C" *)
let xlsb_base (fmt : string) : (BinNums.coq_N * BinNums.coq_N) option option =
  if fmt = "xlsb" then Some None
  else if String.length fmt > 5 && String.sub fmt 0 5 = "xlsb@" then
    (match String.split_on_char ':' (String.sub fmt 5 (String.length fmt - 5)) with
     | [r; c] -> Some (Some (n_of_string r, n_of_string c))
     | _ -> None)
  else None

let run_raw (args : string list) : string =
  match args with
  | [fmt; sh; nm; xt; hex] when xls_base fmt <> None ->
    let base = (match xls_base fmt with Some b -> b | None -> None) in
    let env = { xe_sheets = name_list sh; xe_names = name_list nm; xe_xtis = xti_list xt; xe_base = base } in
    out_str (xls_parse_formula show_f64 env (bytes_of_hex hex))
  | [fmt; sh; nm; hex] when xlsb_base fmt <> None ->
    let base = (match xlsb_base fmt with Some b -> b | None -> None) in
    let env = { be_sheets = name_list sh; be_names = name_list nm; be_base = base } in
    out_str (xlsb_parse_formula show_f64 env (bytes_of_hex hex))
  | _ -> "bad-args"

let run_ast (args : string list) : string =
  match args with
  | fmt :: sh :: nm :: xt :: ast :: rest when xls_base fmt <> None ->
    let base = (match xls_base fmt with Some b -> b | None -> None) in
    let env = { xe_sheets = name_list sh; xe_names = name_list nm; xe_xtis = xti_list xt; xe_base = base } in
    let ex = parse_ast (Array.of_list (String.split_on_char ' ' ast)) in
    (* the model runs on exactly the bytes that travel (an ill-formed AST may yield values > 255) *)
    let bytes = bytes_of_hex (hex_of_bytes (frame_xls (encode_xls ex))) in
    let spec, known = (match rest with
        | links :: _ when links <> "-" ->
          let l = links_list links in
          (render_xls_links show_f64 l env ex, known_str (known_C14 l env.xe_xtis ex))
        | _ -> (render_xls show_f64 env ex, "-")) in
    String.concat "|" [ hex_of_bytes bytes;
                        out_str (xls_parse_formula show_f64 env bytes);
                        hex_of_scalars spec;
                        known;
                        (if wf_xls env ex then "1" else "0") ]
  | fmt :: sh :: nm :: ast :: rest when xlsb_base fmt <> None ->
    let base = (match xlsb_base fmt with Some b -> b | None -> None) in
    let env = { be_sheets = name_list sh; be_names = name_list nm; be_base = base } in
    let ex = parse_ast (Array.of_list (String.split_on_char ' ' ast)) in
    let bytes = bytes_of_hex (hex_of_bytes (encode_xlsb ex)) in
    let spec, known, okext = (match rest with
        | [links; xt; bundle] ->
          let l = links_list links and xs = xti_list xt and bs = name_list bundle in
          let full = { be_sheets = FormulaEnv.spec_extern_links_xlsb bs l xs; be_names = env.be_names; be_base = base } in
          (render_xlsb show_f64 full ex, known_str (known_C14 l xs ex),
           FormulaEnv.spec_extern_xlsb bs xs = env.be_sheets)
        | _ -> (render_xlsb show_f64 env ex, "-", true)) in
    if not okext then "ext-mismatch" else
    String.concat "|" [ hex_of_bytes bytes;
                        out_str (xlsb_parse_formula show_f64 env bytes);
                        hex_of_scalars spec;
                        known;
                        (if wf_xlsb env ex then "1" else "0") ]
  | _ -> "bad-args"

(* sheetq HEXNAME -> model(quote_sheet_name)|spec(sheet_text) *)
let run_sheetq (args : string list) : string =
  match args with
  | [h] ->
    let s = if h = "." then [] else scalars_of_hex h in
    hex_of_scalars (quote_sheet_name s) ^ "|" ^ hex_of_scalars (sheet_text s)
  | _ -> "bad-args"

let () = Registry.register "sheetq" run_sheetq
let () = Registry.register "ptg" run_raw
let () = Registry.register "ptg_ast" run_ast
let init () = ()
