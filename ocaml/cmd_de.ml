(* C09: run the extracted model of RangeDeserializer (De.run_std) and the specification
   (De.spec_std) on the case described exactly as for harness/src/cmds/de.rs and print
   "model##spec" in the harness's canonical format. *)
open Conv
open Prelude
open De

let str_of_ascii (s : string) : BinNums.coq_N list = List.map n_of_int (utf8_decode s)

let parse_cell (t : string) : data =
  let rest = String.sub t 1 (String.length t - 1) in
  match t.[0] with
  | 'E' -> DEmpty
  | 'I' -> DInt (z_of_string rest)
  | 'F' -> DFloat (n_of_string rest)
  | 'S' -> DString (scalars_of_hex rest)
  | 'B' -> DBool (rest = "1")
  | 'D' -> (match String.split_on_char ':' rest with
      | [b; d; y] -> DDateTime (n_of_string b, d = "1", y = "1")
      | _ -> failwith "bad datetime")
  | 'T' -> DDateTimeIso (scalars_of_hex rest)
  | 'U' -> DDurationIso (scalars_of_hex rest)
  | 'X' -> DError (n_of_string rest)
  | _ -> failwith "bad cell"

let parse_range (s : string) : data Range.range =
  if s = "-" then Range.empty
  else match String.split_on_char ';' s with
    | [dims; cells] ->
      (match List.map n_of_string (String.split_on_char ',' dims) with
       | [sr; sc; h; w] ->
         let one = n_of_int 1 in
         let er = BinNat.N.sub (BinNat.N.add sr h) one and ec = BinNat.N.sub (BinNat.N.add sc w) one in
         { Range.r_start = (sr, sc); Range.r_end = (er, ec);
           Range.r_inner = List.map parse_cell (String.split_on_char ',' cells) }
       | _ -> failwith "bad dims")
    | _ -> failwith "bad range"

let rec kind_of_string (s : string) : kind =
  let n = String.length s in
  let inner p = String.sub s (String.length p) (n - String.length p - 1) in
  let starts p = n > String.length p && String.sub s 0 (String.length p) = p in
  if starts "opt(" then KOption (kind_of_string (inner "opt("))
  else if starts "nt(" then KNewtype (kind_of_string (inner "nt("))
  else match s with
    | "bool" -> KBool
    | "i8" -> KInt DeNum.I8 | "i16" -> KInt DeNum.I16 | "i32" -> KInt DeNum.I32 | "i64" -> KInt DeNum.I64
    | "u8" -> KInt DeNum.U8 | "u16" -> KInt DeNum.U16 | "u32" -> KInt DeNum.U32 | "u64" -> KInt DeNum.U64
    | "f32" -> KF32 | "f64" -> KF64 | "char" -> KChar | "string" -> KString
    | "bytes" | "bytesref" -> KBytes | "unit" -> KUnit
    | "enum" -> KEnum (List.map str_of_ascii ["Red"; "Green"; "Dark Blue"])
    | "data" -> KAny | "ign" -> KIgnored
    | "i64n" -> KI64OrNone | "i64s" -> KI64OrString | "f64n" -> KF64OrNone | "f64s" -> KF64OrString
    | _ -> failwith ("bad kind " ^ s)

let fld ?(def = false) name k = { f_name = str_of_ascii name; f_kind = kind_of_string k; f_default = def }
let struct_fields = function
  | "S1" -> [fld "label" "string"; fld "value" "f64"]
  | "S2" -> [fld "a" "opt(i64)"; fld "b" "opt(string)"; fld "c" "opt(f64)"; fld "d" "opt(bool)"]
  | "S3" -> [fld "First Name" "opt(string)"; fld "b" "i64"; fld "c" "opt(data)"]
  | "S4" -> [fld ~def:true "a" "i64n"; fld "b" "f64s"; fld ~def:true "c" "i64";
             fld "d" "opt(opt(u8))"; fld ~def:true "label" "string"]
  | "S5" -> [fld "value" "data"; fld "label" "opt(enum)"; fld "a" "opt(u8)"]
  | s -> failwith ("bad struct " ^ s)

let parse_shape (s : string) : shape =
  let (fam, arg) = match String.index_opt s ':' with
    | Some i -> (String.sub s 0 i, String.sub s (i + 1) (String.length s - i - 1))
    | None -> (s, "") in
  match fam with
  | "vec" -> SVec (kind_of_string arg)
  | "t1" -> STuple [kind_of_string arg]
  | "t2" -> STuple [kind_of_string arg; kind_of_string arg]
  | "map" -> SMap (kind_of_string arg)
  | "bare" -> SBare
  | "mix" -> (match arg with
      | "M1" -> STuple (List.map kind_of_string ["string"; "f64"])
      | "M2" -> STuple (List.map kind_of_string ["opt(i64)"; "opt(string)"; "opt(f64)"; "opt(bool)"; "opt(data)"])
      | "M3" -> STuple (List.map kind_of_string ["i64"; "string"; "bool"; "f64"])
      | "M4" -> STuple (List.map kind_of_string ["u8"; "i16"; "f32"; "char"])
      | _ -> failwith "bad mix")
  | "st" -> SStruct (struct_fields arg)
  | _ -> failwith "bad shape"

let parse_cfg (s : string) (sh : shape) : hcfg =
  match s with
  | "N" -> HNone
  | "A" | "H" -> HAll
  | "W" -> (match sh with SStruct fs -> HCustom (List.map (fun f -> f.f_name) fs) | _ -> HCustom [])
  | _ ->
    let rest = String.sub s 2 (String.length s - 2) in
    if rest = "" then HCustom []
    else HCustom (List.map (fun h -> if h = "-" then [] else scalars_of_hex h) (String.split_on_char ',' rest))

let show_data (d : data) : string =
  match d with
  | DEmpty -> "E"
  | DInt i -> "I" ^ string_of_z i
  | DFloat f -> "F" ^ string_of_n f
  | DString s -> "S" ^ hex_of_scalars s
  | DBool b -> if b then "B1" else "B0"
  | DDateTime (f, d, y) -> Printf.sprintf "D%s:%d:%d" (string_of_n f) (if d then 1 else 0) (if y then 1 else 0)
  | DDateTimeIso s -> "T" ^ hex_of_scalars s
  | DDurationIso s -> "U" ^ hex_of_scalars s
  | DError e -> "X" ^ string_of_n e

let rec show_value (v : value) : string =
  match v with
  | VBool b -> if b then "b1" else "b0"
  | VInt z -> "i" ^ string_of_z z
  | VF32 b -> if DeNum.f32_is_nan b then "fnan" else "f" ^ string_of_n b
  | VF64 b -> "d" ^ string_of_n b
  | VChar c -> "c" ^ string_of_n c
  | VStr s -> "s" ^ hex_of_scalars s
  | VBytes b -> "y" ^ hex_of_bytes b
  | VNone -> "n"
  | VSome v -> "o(" ^ show_value v ^ ")"
  | VUnit -> "u"
  | VVariant i -> "v" ^ string_of_int (int_of_nat i)
  | VData d -> "D" ^ show_data d
  | VIgnored -> "g"
  | VOkR v -> "k(" ^ show_value v ^ ")"
  | VErrR s -> "e" ^ hex_of_scalars s

let show_record (r : record) : string =
  match r with
  | RSeq vs -> "Q[" ^ String.concat ";" (List.map show_value vs) ^ "]"
  | RStruct vs -> "R[" ^ String.concat ";" (List.map show_value vs) ^ "]"
  | RMap kvs ->
    (* HashMap: a later entry overrides; printed sorted by key bytes *)
    let tbl = Hashtbl.create 16 in
    List.iter (fun (k, v) -> Hashtbl.replace tbl (utf8_encode (List.map int_of_n k)) v) kvs;
    let l = Hashtbl.fold (fun k v acc -> (k, v) :: acc) tbl [] in
    let l = List.sort (fun (a, _) (b, _) -> compare a b) l in
    "M[" ^ String.concat ";" (List.map (fun (k, v) -> hex_of_raw k ^ "=" ^ show_value v) l) ^ "]"

let show_err (e : de_error) : string =
  match e with
  | ECellError (c, p) -> Printf.sprintf "err:cell:%s:%s:%s" (string_of_n c) (string_of_n (fst p)) (string_of_n (snd p))
  | EUnexpectedEndOfRow p -> Printf.sprintf "err:eor:%s:%s" (string_of_n (fst p)) (string_of_n (snd p))
  | EHeaderNotFound h -> "err:hnf:" ^ hex_of_scalars h
  | ECustom -> "err:custom"

let show_hint ((lo, hi) : BinNums.coq_N * BinNums.coq_N option) : string =
  string_of_n lo ^ "/" ^ (match hi with Some u -> string_of_n u | None -> "-")

let show_trace (t : ((BinNums.coq_N * BinNums.coq_N option) * record dres option) list) : string =
  String.concat "|" (List.map (fun (h, it) ->
      show_hint h ^ ":" ^
      (match it with
       | None -> "end"
       | Some (DOk r) -> "ok:" ^ show_record r
       | Some (DErr e) -> show_err e)) t)

let show_run (r : ((BinNums.coq_N * BinNums.coq_N option) * record dres option) list dres) : string =
  match r with
  | DErr e -> "new-" ^ show_err e
  | DOk t -> show_trace t

let run (args : string list) : string =
  match args with
  | [rs; cs; ss] ->
    let r = parse_range rs in
    let sh = parse_shape ss in
    let cfg = parse_cfg cs sh in
    let m = match run_std cfg sh r with
      | Ok t -> show_run t
      | Panic -> "panic"
      | Err _ -> "err"
      | OutOfFuel -> "fuel" in
    let s = show_run (spec_std cfg sh r) in
    m ^ "##" ^ s
  | _ -> "bad-args"

let () = Registry.register "de" run
let init () = ()
