import subprocess, sys, os, shutil, re, json, glob
MUT="/tmp/ag/c03/repo-mut"
muts = {
 "M1_len_5th_byte": ("src/xlsb/mod.rs", "        for i in 1..4 {\n            if (b & 0x80) == 0 {", "        for i in 1..5 {\n            if (b & 0x80) == 0 {"),
 "M2_id_shift8": ("src/xlsb/mod.rs", "(b & 0x7F) as u16 + (((self.read_u8()? & 0x7F) as u16) << 7)", "(b & 0x7F) as u16 + (((self.read_u8()? & 0x7F) as u16) << 8)"),
 "M3_col_u16": ("src/xlsb/cells_reader.rs", "            break value;\n        };\n        let col = read_u32(&self.buf);\n        Ok(Some(Cell::new((self.row, col), value)))\n    }\n\n    pub fn next_formula", "            break value;\n        };\n        let col = (read_u32(&self.buf) & 0xFFFF);\n        Ok(Some(Cell::new((self.row, col), value)))\n    }\n\n    pub fn next_formula"),
 "M4_fmlabool_dropped": ("src/xlsb/cells_reader.rs", "0x0004 | 0x000A => DataRef::Bool(self.buf[8] != 0),", "0x0004 => DataRef::Bool(self.buf[8] != 0),"),
 "M5_last_row_stops": ("src/xlsb/cells_reader.rs", "                    self.row = read_u32(&self.buf);\n                    if self.row > 0x0010_0000 {\n                        return Ok(None); // invalid row\n                    }\n                    continue;\n                }\n                0x0092 => return Ok(None), // BrtEndSheetData\n                _ => continue, // anything else, ignore and try next, without changing idx\n            };\n            break value;\n        };\n        let col = read_u32(&self.buf);\n        Ok(Some(Cell::new((self.row, col), value)))\n    }\n\n    pub fn next_formula", "                    self.row = read_u32(&self.buf);\n                    if self.row >= 0x000F_FFFF {\n                        return Ok(None); // invalid row\n                    }\n                    continue;\n                }\n                0x0092 => return Ok(None), // BrtEndSheetData\n                _ => continue, // anything else, ignore and try next, without changing idx\n            };\n            break value;\n        };\n        let col = read_u32(&self.buf);\n        Ok(Some(Cell::new((self.row, col), value)))\n    }\n\n    pub fn next_formula"),
 "M6_isst0_off_by_one": ("src/xlsb/cells_reader.rs", "                    let isst = read_usize(&self.buf[8..12]);", "                    let isst = read_usize(&self.buf[8..12]);\n                    let isst = if isst == 0 && self.strings.len() > 1 { 1 } else { isst };"),
 "M7_low_byte_match": ("src/xlsb/cells_reader.rs", "            let _ = self.iter.fill_buffer(&mut self.buf)?;\n            let value = match self.typ {\n                // 0x0001 => continue, // Data::Empty, // BrtCellBlank\n                0x0002 => {\n                    // BrtCellRk MS-XLSB 2.5.122", "            let _ = self.iter.fill_buffer(&mut self.buf)?;\n            let value = match self.typ & 0x00FF {\n                // 0x0001 => continue, // Data::Empty, // BrtCellBlank\n                0x0002 => {\n                    // BrtCellRk MS-XLSB 2.5.122"),
 "M8_widestr_half": ("src/xlsb/mod.rs", "    *str_len = 4 + len * 2;\n    let s = &buf[4..*str_len];", "    *str_len = 4 + len * 2;\n    let s = &buf[4..4 + len];"),
 "M9_rowhdr_needs_prior": ("src/xlsb/cells_reader.rs", "                    self.row = read_u32(&self.buf);\n                    if self.row > 0x0010_0000 {\n                        return Ok(None); // invalid row\n                    }\n                    continue;\n                }\n                0x0092 => return Ok(None), // BrtEndSheetData\n                _ => continue, // anything else, ignore and try next, without changing idx\n            };\n            break value;\n        };\n        let col = read_u32(&self.buf);\n        Ok(Some(Cell::new((self.row, col), value)))\n    }\n\n    pub fn next_formula", "                    let r = read_u32(&self.buf);\n                    if r != self.row + 1 || self.row != 0 { self.row = r; }\n                    if self.row > 0x0010_0000 {\n                        return Ok(None); // invalid row\n                    }\n                    continue;\n                }\n                0x0092 => return Ok(None), // BrtEndSheetData\n                _ => continue, // anything else, ignore and try next, without changing idx\n            };\n            break value;\n        };\n        let col = read_u32(&self.buf);\n        Ok(Some(Cell::new((self.row, col), value)))\n    }\n\n    pub fn next_formula"),
 "M10_fmlaerr_dropped": ("src/xlsb/cells_reader.rs", "0x0003 | 0x000B => {", "0x0003 => {"),
}
which = sys.argv[1:] or list(muts)
res = {}
for name in which:
    f, old, new = muts[name]
    shutil.copy(os.path.join("/repo", f), os.path.join(MUT, f))
    src = open(os.path.join(MUT, f)).read()
    if src.count(old) != 1:
        print(name, "PATCH DOES NOT APPLY (count=%d)" % src.count(old)); continue
    open(os.path.join(MUT, f), "w").write(src.replace(old, new))
    env = dict(os.environ, VERIF_REPO=MUT)
    p = subprocess.run(["timeout", "2400", "./check", "C03", "--tier", "quick"], cwd="/tmp/ag/c03/verif", env=env, stdout=subprocess.PIPE, stderr=subprocess.STDOUT)
    out = p.stdout.decode()
    viol = [l for l in out.split("\n") if l.startswith("VIOLATION") or l.startswith("C03 quick") or "infrastructure" in l]
    info = ""
    m = re.search(r"replay=(\S+)", out)
    if m and os.path.exists(m.group(1)):
        r = json.load(open(m.group(1)))
        info = "kind=%s what=%s case=%s actual=%s expected=%s" % (r.get("kind"), str(r.get("what") or r.get("broken"))[:160], str(r.get("case"))[:160], str(r.get("actual") or r.get("impl"))[:160], str(r.get("expected") or r.get("model"))[:160])
    res[name] = (p.returncode, viol, info)
    print("==", name, "rc=%d" % p.returncode); [print("  ", v) for v in viol]; print("  ", info); sys.stdout.flush()
    shutil.copy(os.path.join("/repo", f), os.path.join(MUT, f))
