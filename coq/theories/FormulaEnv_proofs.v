(* FormulaEnv_proofs — C14: the name / extern-sheet tables handed to the formula decoders are the
   record lists of the file, in order, whatever flags the records carry; the formula range of the
   stored-text readers. *)
From Coq Require Import String.
From Calamine Require Import Prelude Range Range_spec Range_proofs Col26 Col26_proofs FtabRef Ptg Ptg_proofs
  FormulaPos_proofs FormulaEnv.
Open Scope N_scope.
Set Implicit Arguments.

(* ------------------------------------------------------------------ fields and slices *)
Lemma u32_at_le4 : forall (a k : list N) v, v < 4294967296 -> u32_at (a ++ le 4 v ++ k) (length a) = Ok v.
Proof.
  intros a k v H. unfold u32_at. rewrite skipn_app_len. cbn [le app].
  rewrite le4_eq by exact H. reflexivity.
Qed.
Lemma u32_at_le4_0 : forall (k : list N) v, v < 4294967296 -> u32_at (le 4 v ++ k) 0 = Ok v.
Proof. intros k v H. apply (@u32_at_le4 [] k v H). Qed.
Lemma u16_at_le2_0 : forall (k : list N) v, v < 65536 -> u16_at (le 2 v ++ k) 0 = Ok v.
Proof. intros k v H. unfold u16_at. cbn [skipn le app]. rewrite le2_eq by exact H. reflexivity. Qed.

Lemma skipn_le : forall k n (r : list N), skipn k (le k n ++ r) = r.
Proof. intros k n r. rewrite <- (le_length k n) at 1. apply skipn_app_len. Qed.

Lemma sliceN_app : forall (a m k : list N), sliceN (a ++ m ++ k) (length a) (N.of_nat (length m)) = Ok m.
Proof.
  intros a m k. unfold sliceN. rewrite !app_length.
  destruct (N.of_nat (length a) + N.of_nat (length m) <=? N.of_nat (length a + (length m + length k))) eqn:E.
  - rewrite Nat2N.id, skipn_app_len, firstn_app_len. reflexivity.
  - apply N.leb_gt in E. lia.
Qed.

Lemma nthN_nth_error : forall (A : Type) (l : list A) i, nthN l (N.of_nat i) = nth_error l i.
Proof.
  induction l as [|x l IH]; intros i; [destruct i; reflexivity|].
  destruct i as [|i]; [reflexivity|].
  cbn [nthN nth_error]. destruct (N.of_nat (S i) =? 0) eqn:E; [apply N.eqb_eq in E; lia|].
  replace (N.of_nat (S i) - 1) with (N.of_nat i) by lia. apply IH.
Qed.

(* ================================================================== xlsb ========== *)
Lemma wide_str_enc : forall s k, forallb scalar s = true ->
  N.of_nat (length (utf16_units s)) < 4294967296 ->
  wide_str (enc_wide s ++ k) = Ok (s, (4 + 2 * length (utf16_units s))%nat).
Proof.
  intros s k Hs Hl. unfold wide_str, enc_wide. rewrite <- app_assoc.
  destruct (length (le 4 (N.of_nat (length (utf16_units s))) ++ flat_map (le 2) (utf16_units s) ++ k) <? 4)%nat eqn:E4;
    [apply Nat.ltb_lt in E4; rewrite app_length, le_length in E4; lia|].
  rewrite u32_at_le4_0 by exact Hl. cbn [obind]. rewrite Nat2N.id.
  rewrite skipn_le.
  destruct (N.of_nat (length (le 4 (N.of_nat (length (utf16_units s))) ++ flat_map (le 2) (utf16_units s) ++ k))
            <? 4 + 2 * N.of_nat (length (utf16_units s))) eqn:E.
  - apply N.ltb_lt in E. rewrite !app_length, le_length, flat_le2_length in E. lia.
  - rewrite <- (flat_le2_length (utf16_units s)), firstn_app_len.
    rewrite decode_le2_units by exact Hs. rewrite flat_le2_length. reflexivity.
Qed.

Lemma enc_xti_length : forall xtis, length (flat_map enc_xti xtis) = (12 * length xtis)%nat.
Proof.
  induction xtis as [|x t IH]; [reflexivity|].
  cbn [flat_map length]. rewrite app_length, IH. unfold enc_xti. rewrite !app_length, !le_length. lia.
Qed.

Section XlsbProofs.
Variable show_f64 : N -> list N.
Variable sheets : list (list N).

Lemma extern_chunks_enc : forall xtis fuel stale,
  forallb wf_xti xtis = true -> (length xtis < fuel)%nat ->
  extern_chunks sheets fuel (N.of_nat (length xtis)) (flat_map enc_xti xtis ++ stale)
  = Ok (spec_extern_xlsb sheets xtis).
Proof.
  induction xtis as [|x t IH]; intros fuel stale Hwf Hf.
  - destruct fuel; [lia|]. reflexivity.
  - destruct fuel as [|f]; [lia|]. cbn [forallb] in Hwf. apply andb_prop in Hwf. destruct Hwf as [Hx Ht].
    destruct x as [[a b] c]. unfold wf_xti in Hx. cbn [fst snd] in Hx.
    apply andb_prop in Hx. destruct Hx as [Hx Hc]. apply andb_prop in Hx. destruct Hx as [Ha Hb].
    apply N.ltb_lt in Hb.
    cbn [flat_map length]. change (enc_xti (a, b, c)) with (le 4 a ++ le 4 b ++ le 4 c). cbn [le app].
    cbn [extern_chunks]. destruct (N.of_nat (S (length t)) =? 0) eqn:E; [apply N.eqb_eq in E; lia|].
    match goal with |- context [(length ?l <? 12)%nat] =>
      destruct (length l <? 12)%nat eqn:EL; [apply Nat.ltb_lt in EL; cbn [length] in EL; lia|] end.
    cbn [firstn skipn u32_at obind].
    rewrite le4_eq by exact Hb. cbn [obind].
    replace (N.of_nat (S (length t)) - 1) with (N.of_nat (length t)) by lia.
    rewrite IH by (try exact Ht; cbn [length] in Hf; lia).
    reflexivity.
Qed.

Lemma brt_extern_enc : forall st xtis, forallb wf_xti xtis = true ->
  N.of_nat (length xtis) < 4294967296 ->
  brt_extern_sheet sheets st (enc_externsheet xtis)
  = Ok {| ws_ext := spec_extern_xlsb sheets xtis; ws_names := ws_names st |}.
Proof.
  intros st xtis Hwf Hl. unfold brt_extern_sheet, xlsb_extern_sheets, enc_externsheet.
  destruct (length (le 4 (N.of_nat (length xtis)) ++ flat_map enc_xti xtis) <? 4)%nat eqn:E4;
    [apply Nat.ltb_lt in E4; rewrite app_length, le_length in E4; lia|].
  rewrite u32_at_le4_0 by exact Hl. cbn [obind]. rewrite skipn_le.
  rewrite <- (app_nil_r (flat_map enc_xti xtis)) at 2.
  rewrite extern_chunks_enc; [reflexivity|exact Hwf|].
  rewrite !app_length, le_length, enc_xti_length. lia.
Qed.

Lemma brt_name_enc : forall st d, wf_name_rec d = true ->
  brt_name show_f64 st (enc_brtname d) =
  do f <- xlsb_parse_formula show_f64
            {| be_sheets := ws_ext st; be_names := map fst (ws_names st); be_base := None |} (nr_rgce d);
  Ok {| ws_ext := ws_ext st; ws_names := ws_names st ++ [(nr_name d, f)] |}.
Proof.
  intros st d Hwf. unfold wf_name_rec in Hwf.
  repeat (apply andb_prop in Hwf; let H := fresh "H" in destruct Hwf as [Hwf H]).
  apply N.ltb_lt in H, H0. rename H into Hrl. rename H0 into Hnl. rename H1 into Hsc.
  unfold brt_name, enc_brtname.
  set (h9 := le 4 (nr_flags d) ++ [nr_chkey d] ++ le 4 (nr_itab d)).
  assert (L9 : length h9 = 9%nat) by (unfold h9; rewrite !app_length, !le_length; reflexivity).
  set (w := enc_wide (nr_name d)).
  assert (Lw : length w = (4 + 2 * length (utf16_units (nr_name d)))%nat)
    by (unfold w, enc_wide; rewrite app_length, le_length, flat_le2_length; reflexivity).
  set (l4 := le 4 (N.of_nat (length (nr_rgce d)))).
  assert (L4 : length l4 = 4%nat) by apply le_length.
  set (rest := w ++ l4 ++ nr_rgce d ++ nr_tail d).
  replace (le 4 (nr_flags d) ++ [nr_chkey d] ++ le 4 (nr_itab d) ++ rest)
    with (h9 ++ rest) by (unfold h9; rewrite <- !app_assoc; reflexivity).
  assert (Lp : length (h9 ++ rest) = (9 + (4 + 2 * length (utf16_units (nr_name d))) + 4 + length (nr_rgce d) + length (nr_tail d))%nat)
    by (unfold rest; rewrite !app_length, L9, Lw, L4; lia).
  destruct (length (h9 ++ rest) <? 9)%nat eqn:E9; [apply Nat.ltb_lt in E9; lia|].
  rewrite <- L9 at 1. rewrite skipn_app_len.
  unfold rest at 1. unfold w at 1. rewrite wide_str_enc by assumption. cbn [obind].
  destruct (length (h9 ++ rest) <? 13 + (4 + 2 * length (utf16_units (nr_name d))))%nat eqn:E13;
    [apply Nat.ltb_lt in E13; lia|].
  assert (S2 : u32_at (h9 ++ rest) (9 + (4 + 2 * length (utf16_units (nr_name d))))
               = Ok (N.of_nat (length (nr_rgce d)))).
  { unfold rest. rewrite <- Lw, <- L9, <- app_length.
    replace (h9 ++ w ++ l4 ++ nr_rgce d ++ nr_tail d)
      with ((h9 ++ w) ++ l4 ++ (nr_rgce d ++ nr_tail d)) by (rewrite <- !app_assoc; reflexivity).
    apply u32_at_le4. exact Hrl. }
  rewrite S2. cbn [obind].
  destruct (N.of_nat (length (h9 ++ rest)) <? N.of_nat (13 + (4 + 2 * length (utf16_units (nr_name d)))) + N.of_nat (length (nr_rgce d))) eqn:E3;
    [apply N.ltb_lt in E3; lia|].
  assert (S3 : sliceN (h9 ++ rest) (13 + (4 + 2 * length (utf16_units (nr_name d))))
                 (N.of_nat (length (nr_rgce d))) = Ok (nr_rgce d)).
  { unfold rest.
    replace (13 + (4 + 2 * length (utf16_units (nr_name d))))%nat with (length (h9 ++ w ++ l4))
      by (rewrite !app_length, L9, Lw, L4; lia).
    replace (h9 ++ w ++ l4 ++ nr_rgce d ++ nr_tail d)
      with ((h9 ++ w ++ l4) ++ nr_rgce d ++ nr_tail d) by (rewrite <- !app_assoc; reflexivity).
    apply sliceN_app. }
  rewrite S3. cbn [obind]. reflexivity.
Qed.

Lemma end_rec_not_name : forall e, is_end_rec e = true -> (e =? 0x016A) = false /\ (e =? 0x0027) = false.
Proof.
  intros e H. unfold is_end_rec in H.
  repeat (apply orb_true_iff in H; destruct H as [H|H]);
    apply N.eqb_eq in H; subst e; split; reflexivity.
Qed.

(* the loop over the BrtName records of workbook.bin builds exactly the table the property
   demands — every record takes a slot, whatever its flags, whatever bytes the previous records
   left in the buffer *)
Theorem xlsb_names_of_records : forall ds e p st,
  forallb wf_name_rec ds = true -> is_end_rec e = true ->
  xlsb_names_loop show_f64 sheets (map (fun d => (0x0027, enc_brtname d)) ds ++ [(e, p)]) st
  = do r <- spec_names_xlsb show_f64 (ws_ext st) (ws_names st) ds; Ok (ws_ext st, r).
Proof.
  induction ds as [|d t IH]; intros e p st Hwf He.
  - destruct (end_rec_not_name e He) as [E1 E2]. cbn [map app xlsb_names_loop spec_names_xlsb obind].
    rewrite E1, E2, He. reflexivity.
  - cbn [forallb] in Hwf. apply andb_prop in Hwf. destruct Hwf as [Hd Ht].
    cbn [map app xlsb_names_loop spec_names_xlsb].
    change (0x0027 =? 0x016A) with false. change (0x0027 =? 0x0027) with true. cbn iota.
    rewrite brt_name_enc by exact Hd.
    destruct (xlsb_parse_formula show_f64 {| be_sheets := ws_ext st; be_names := map fst (ws_names st); be_base := None |} (nr_rgce d))
      as [f|c| |]; cbn [obind]; try reflexivity.
    rewrite IH by assumption. reflexivity.
Qed.

Theorem xlsb_read_names_spec : forall xtis ds e p,
  forallb wf_xti xtis = true -> N.of_nat (length xtis) < 4294967296 ->
  forallb wf_name_rec ds = true -> is_end_rec e = true ->
  xlsb_read_names show_f64 sheets
    ((0x016A, enc_externsheet xtis) :: map (fun d => (0x0027, enc_brtname d)) ds ++ [(e, p)])
  = do r <- spec_names_xlsb show_f64 (spec_extern_xlsb sheets xtis) [] ds;
    Ok (spec_extern_xlsb sheets xtis, r).
Proof.
  intros xtis ds e p Hx Hl Hd He. unfold xlsb_read_names. cbn [xlsb_names_loop].
  change (0x016A =? 0x016A) with true. cbn iota.
  rewrite brt_extern_enc by assumption. cbn [obind].
  rewrite xlsb_names_of_records by assumption. reflexivity.
Qed.

(* ---------- what the table looks like ---------- *)
Lemma spec_names_fst : forall ds ext acc r,
  spec_names_xlsb show_f64 ext acc ds = Ok r -> map fst r = map fst acc ++ map nr_name ds.
Proof.
  induction ds as [|d t IH]; intros ext acc r H.
  - cbn in H. injection H as <-. symmetry. apply app_nil_r.
  - cbn [spec_names_xlsb] in H.
    destruct (xlsb_parse_formula show_f64 {| be_sheets := ext; be_names := map fst acc; be_base := None |} (nr_rgce d))
      as [f|c| |]; cbn [obind] in H; try discriminate.
    apply IH in H. rewrite H, map_app. cbn [map fst]. rewrite <- app_assoc. reflexivity.
Qed.

Theorem defined_names_in_order_xlsb : forall ext ds r,
  spec_names_xlsb show_f64 ext [] ds = Ok r -> map fst r = map nr_name ds.
Proof. intros ext ds r H. apply spec_names_fst in H. exact H. Qed.

Theorem name_index_stable_xlsb : forall ext ds r i d,
  spec_names_xlsb show_f64 ext [] ds = Ok r -> nth_error ds i = Some d ->
  spec_name (map fst r) (N.of_nat i + 1) = nr_name d.
Proof.
  intros ext ds r i d H Hn. apply defined_names_in_order_xlsb in H.
  unfold spec_name. replace (N.of_nat i + 1 - 1) with (N.of_nat i) by lia.
  rewrite nthN_nth_error, H, nth_error_map, Hn. reflexivity.
Qed.

(* … and the decoder itself renders PtgName i+1 as the i-th record's name *)
Theorem ptgname_is_ith_record_xlsb : forall ext ds r i d k,
  spec_names_xlsb show_f64 ext [] ds = Ok r -> nth_error ds i = Some d ->
  N.of_nat i + 1 < 4294967296 ->
  xlsb_parse_formula show_f64 {| be_sheets := ext; be_names := map fst r; be_base := None |}
    (encode_xlsb (EName k (N.of_nat i + 1))) = Ok (nr_name d).
Proof.
  intros ext ds r i d k H Hn Hi.
  rewrite rpn_correct_xlsb.
  - unfold render_xlsb. cbn [render be_names]. f_equal. eapply name_index_stable_xlsb; eassumption.
  - unfold wf_xlsb. cbn [wf be_names].
    pose proof (defined_names_in_order_xlsb _ _ H) as Hm.
    assert (Hlen : length (map fst r) = length ds) by (rewrite Hm, map_length; reflexivity).
    assert (Hlt : (i < length ds)%nat) by (apply nth_error_Some; rewrite Hn; discriminate).
    rewrite Hlen.
    repeat (apply andb_true_intro; split); try apply N.leb_le; try apply N.ltb_lt; lia.
Qed.

Theorem sheet3d_through_xti_xlsb : forall xtis i x nm,
  nth_error xtis i = Some x ->
  spec_sheet_xlsb {| be_sheets := spec_extern_xlsb sheets xtis; be_names := nm; be_base := None |} (N.of_nat i)
  = resolve_xti sheets (snd (fst x)).
Proof.
  intros xtis i x nm H. unfold spec_sheet_xlsb, spec_extern_xlsb. cbn [be_sheets].
  rewrite nthN_nth_error, nth_error_map, H. reflexivity.
Qed.

End XlsbProofs.

(* ================================================================== xls =========== *)
Lemma unicode_no_cch_wide : forall s k, forallb scalar s = true ->
  unicode_no_cch ((1 :: flat_map (le 2) (utf16_units s)) ++ k) (length (utf16_units s)) = s.
Proof.
  intros s k Hs. unfold unicode_no_cch. cbn [app skipn].
  change (N.testbit 1 0) with true. cbn iota.
  set (u := utf16_units s). set (fl := flat_map (le 2) u).
  assert (Hfl : length fl = (2 * length u)%nat) by apply flat_le2_length.
  rewrite <- Hfl, firstn_app_len.
  replace (length fl / 2)%nat with (length u) by (rewrite Hfl, Nat.mul_comm, Nat.div_mul by lia; reflexivity).
  rewrite Nat.min_id, <- Hfl, firstn_all. unfold fl, u. apply decode_le2_units. exact Hs.
Qed.

Lemma unicode_no_cch_narrow : forall s k, forallb (fun c => c <? 256) s = true ->
  unicode_no_cch ((0 :: s) ++ k) (length s) = s.
Proof.
  intros s k Hs. unfold unicode_no_cch. cbn [app skipn].
  change (N.testbit 0 0) with false. cbn iota.
  rewrite firstn_app_len, Nat.min_id, firstn_all. apply decode_widen. exact Hs.
Qed.

Lemma nthN_none : forall (A : Type) (l : list A) i, N.of_nat (length l) <= i -> nthN l i = None.
Proof.
  induction l as [|x l IH]; intros i H; [reflexivity|]. cbn [nthN length] in *.
  destruct (i =? 0) eqn:E; [apply N.eqb_eq in E; lia|]. apply N.eqb_neq in E. apply IH. lia.
Qed.

(* the table of the code is the table of MS-XLS 2.5.114 *)
Lemma builtin_table : forall c, nthN BUILTIN_NAMES c = builtin_name c.
Proof.
  intros c. destruct c as [|p]; [reflexivity|].
  do 4 (destruct p as [p|p|]; try reflexivity).
  all: cbn [builtin_name]; apply nthN_none; unfold BUILTIN_NAMES; cbn [length]; lia.
Qed.

Lemma testbit5_mod256 : forall n, N.testbit (n mod 256) 5 = N.testbit n 5.
Proof. intros n. change 256 with (2 ^ 8). apply N.mod_pow2_bits_low. lia. Qed.

Lemma builtin_fix_logical : forall d, builtin_fix (lb_flags d mod 256) (lb_name d) = lb_logical d.
Proof.
  intros d. unfold builtin_fix, lb_logical. rewrite testbit5_mod256.
  destruct (N.testbit (lb_flags d) 5); [|reflexivity].
  destruct (lb_name d) as [|c [|c' t]]; try reflexivity. rewrite builtin_table. reflexivity.
Qed.

Lemma xls_lbl_enc : forall d, wf_lbl d = true ->
  xls_lbl (enc_lbl d) = do f <- parse_defined_names (lb_rgce d); Ok (lb_logical d, (f, lb_rgce d)).
Proof.
  intros d Hwf. unfold wf_lbl in Hwf.
  apply andb_prop in Hwf. destruct Hwf as [Hwf Hce]. apply andb_prop in Hwf. destruct Hwf as [Hwf Hnm].
  apply N.ltb_lt in Hce.
  unfold xls_lbl, enc_lbl.
  set (str := if lb_wide d then 1 :: flat_map (le 2) (utf16_units (lb_name d)) else 0 :: lb_name d).
  set (cch := if lb_wide d then N.of_nat (length (utf16_units (lb_name d))) else N.of_nat (length (lb_name d))).
  cbn [le app].
  set (data := lb_flags d mod 256 :: _).
  assert (Hd : data = firstn 14 data ++ str ++ lb_rgce d) by reflexivity.
  assert (Hlen : length data = (14 + length (str ++ lb_rgce d))%nat) by reflexivity.
  destruct (length data <? 14)%nat eqn:E14; [apply Nat.ltb_lt in E14; lia|].
  assert (Hb : byte_at data 3 = Ok cch) by reflexivity.
  assert (Hc : u16_at data 4 = Ok (N.of_nat (length (lb_rgce d)))).
  { unfold data, u16_at. cbn [skipn]. rewrite le2_eq by exact Hce. reflexivity. }
  rewrite Hb, Hc. cbn [obind]. rewrite Nat2N.id.
  destruct (length data <? 14 + length (lb_rgce d))%nat eqn:E;
    [apply Nat.ltb_lt in E; rewrite Hlen, app_length in E; lia|].
  assert (Hdr : drop 14 data = Ok (str ++ lb_rgce d)) by reflexivity.
  rewrite Hdr. cbn [obind].
  assert (Hsk : skipn (length data - length (lb_rgce d)) data = lb_rgce d).
  { rewrite Hd at 2. rewrite Hlen, app_length.
    replace (14 + (length str + length (lb_rgce d)) - length (lb_rgce d))%nat
      with (length (firstn 14 data ++ str)) by (rewrite app_length; cbn [firstn length data]; lia).
    rewrite app_assoc. apply skipn_app_len. }
  cbv zeta. rewrite Hsk.
  assert (Hname : unicode_no_cch (str ++ lb_rgce d) (N.to_nat cch) = lb_name d).
  { unfold str, cch. destruct (lb_wide d); apply andb_prop in Hnm; destruct Hnm as [Hs _]; rewrite Nat2N.id.
    - apply unicode_no_cch_wide. exact Hs.
    - apply unicode_no_cch_narrow. exact Hs. }
  rewrite Hname. change (nth 0 data 0) with (lb_flags d mod 256). rewrite builtin_fix_logical. reflexivity.
Qed.

Lemma enc_xti16_length : forall xtis, length (flat_map enc_xti16 xtis) = (6 * length xtis)%nat.
Proof.
  induction xtis as [|x t IH]; [reflexivity|].
  cbn [flat_map length]. rewrite app_length, IH. unfold enc_xti16. rewrite !app_length, !le_length. lia.
Qed.

Lemma xti_chunks_enc : forall xtis fuel k,
  forallb wf_xti16 xtis = true -> (length xtis < fuel)%nat ->
  xti_chunks fuel (N.of_nat (length xtis)) (flat_map enc_xti16 xtis ++ k) = Ok xtis.
Proof.
  induction xtis as [|x t IH]; intros fuel k Hwf Hf.
  - destruct fuel; [lia|]. reflexivity.
  - destruct fuel as [|f]; [lia|]. cbn [forallb] in Hwf. apply andb_prop in Hwf. destruct Hwf as [Hx Ht].
    destruct x as [[a b] c]. unfold wf_xti16 in Hx. cbn [fst snd] in Hx.
    apply andb_prop in Hx. destruct Hx as [Hx Hc]. apply andb_prop in Hx. destruct Hx as [Ha Hb].
    apply N.ltb_lt in Ha, Hb, Hc.
    cbn [flat_map length]. change (enc_xti16 (a, b, c)) with (le 2 a ++ le 2 b ++ le 2 c). cbn [le app].
    cbn [xti_chunks]. destruct (N.of_nat (S (length t)) =? 0) eqn:E; [apply N.eqb_eq in E; lia|].
    match goal with |- context [(length ?l <? 6)%nat] =>
      destruct (length l <? 6)%nat eqn:EL; [apply Nat.ltb_lt in EL; cbn [length] in EL; lia|] end.
    cbn [firstn skipn u16_at obind].
    rewrite !le2_eq by assumption. cbn [obind].
    replace (N.of_nat (S (length t)) - 1) with (N.of_nat (length t)) by lia.
    rewrite IH by (try exact Ht; cbn [length] in Hf; lia).
    reflexivity.
Qed.

Lemma xls_externsheet_enc : forall xtis, forallb wf_xti16 xtis = true ->
  N.of_nat (length xtis) < 65536 -> xls_externsheet (enc_externsheet16 xtis) = Ok xtis.
Proof.
  intros xtis Hwf Hl. unfold xls_externsheet, enc_externsheet16.
  destruct (length (le 2 (N.of_nat (length xtis)) ++ flat_map enc_xti16 xtis) <? 2)%nat eqn:E2;
    [apply Nat.ltb_lt in E2; rewrite app_length, le_length in E2; lia|].
  rewrite u16_at_le2_0 by exact Hl. cbn [obind]. rewrite skipn_le.
  rewrite <- (app_nil_r (flat_map enc_xti16 xtis)).
  apply xti_chunks_enc; [exact Hwf|].
  rewrite app_nil_r, app_length, le_length, enc_xti16_length. lia.
Qed.

(* the globals loop keeps every Lbl record, in order, and concatenates the XTI arrays *)
Theorem xls_globals_spec : forall gs n0 x0, forallb wf_grec gs = true ->
  xls_globals (map enc_grec gs) n0 x0
  = do r <- spec_lbls (lbls_of gs); Ok (n0 ++ r, x0 ++ xtis_of gs).
Proof.
  induction gs as [|g t IH]; intros n0 x0 Hwf.
  - cbn. rewrite !app_nil_r. reflexivity.
  - cbn [forallb] in Hwf. apply andb_prop in Hwf. destruct Hwf as [Hg Ht].
    destruct g as [d|x|ty data]; cbn [map enc_grec xls_globals lbls_of xtis_of flat_map app wf_grec] in *.
    + change (0x0018 =? 0x000A) with false. change (0x0018 =? 0x0018) with true. cbn iota.
      rewrite xls_lbl_enc by exact Hg. cbn [spec_lbls].
      destruct (parse_defined_names (lb_rgce d)) as [f|c| |]; cbn [obind]; try reflexivity.
      rewrite IH by exact Ht. fold (lbls_of t). fold (xtis_of t).
      destruct (spec_lbls (lbls_of t)) as [r|c| |]; cbn [obind]; try reflexivity.
      rewrite <- app_assoc. reflexivity.
    + change (0x0017 =? 0x000A) with false. change (0x0017 =? 0x0018) with false.
      change (0x0017 =? 0x0017) with true. cbn iota.
      apply andb_prop in Hg. destruct Hg as [Hx Hl]. apply N.ltb_lt in Hl.
      rewrite xls_externsheet_enc by assumption. cbn [obind].
      rewrite IH by exact Ht. fold (lbls_of t). fold (xtis_of t).
      destruct (spec_lbls (lbls_of t)) as [r|c| |]; cbn [obind]; try reflexivity.
      rewrite <- app_assoc. reflexivity.
    + apply negb_true_iff in Hg. apply orb_false_iff in Hg. destruct Hg as [Hg H17].
      apply orb_false_iff in Hg. destruct Hg as [H0A H18]. rewrite H0A, H18, H17.
      rewrite IH by exact Ht. reflexivity.
Qed.

Lemma spec_lbls_fst : forall ds r, spec_lbls ds = Ok r -> map fst r = map lb_logical ds.
Proof.
  induction ds as [|d t IH]; intros r H.
  - cbn in H. injection H as <-. reflexivity.
  - cbn [spec_lbls] in H. destruct (parse_defined_names (lb_rgce d)) as [f|c| |]; cbn [obind] in H; try discriminate.
    destruct (spec_lbls t) as [r'|c| |]; cbn [obind] in H; try discriminate.
    injection H as <-. cbn [map fst]. rewrite (IH r' eq_refl). reflexivity.
Qed.

Lemma map_o_final_fst : forall show_f64 sheets xtis nms (l : list raw_name) r,
  map_o (xls_final_name show_f64 sheets xtis nms) l = Ok r -> map fst r = map fst l.
Proof.
  intros show_f64 sheets xtis nms. induction l as [|n t IH]; intros r H.
  - cbn in H. injection H as <-. reflexivity.
  - cbn [map_o] in H. unfold xls_final_name at 1 in H.
    destruct (xls_parse_formula show_f64 _ _) as [full|c| |]; cbn [obind] in H; try discriminate;
      destruct (map_o (xls_final_name show_f64 sheets xtis nms) t) as [r'|c'| |]; cbn [obind] in H; try discriminate;
      injection H as <-; cbn [map fst]; rewrite (IH r' eq_refl); reflexivity.
Qed.

Lemma map_o_nth : forall (A B : Type) (f : A -> outcome B) l r i x,
  map_o f l = Ok r -> nth_error l i = Some x -> exists y, f x = Ok y /\ nth_error r i = Some y.
Proof.
  intros A B f. induction l as [|a t IH]; intros r i x H Hn; [destruct i; discriminate|].
  cbn [map_o] in H. destruct (f a) as [y|c| |] eqn:Ea; cbn [obind] in H; try discriminate.
  destruct (map_o f t) as [r'|c| |] eqn:Et; cbn [obind] in H; try discriminate. injection H as <-.
  destruct i as [|i]; cbn [nth_error] in *.
  - injection Hn as <-. exists y. split; [exact Ea|reflexivity].
  - apply (IH r' i x eq_refl Hn).
Qed.

Lemma map_quote_sheet : forall l, map quote_sheet_name l = map sheet_text l.
Proof. intros l. apply map_ext. exact quote_sheet_name_spec. Qed.

Lemma nthN_map : forall (A B : Type) (f : A -> B) (l : list A) i,
  nthN (map f l) i = match nthN l i with Some x => Some (f x) | None => None end.
Proof.
  induction l as [|x l IH]; intros i; [reflexivity|]. cbn [map nthN].
  destruct (i =? 0); [reflexivity|apply IH].
Qed.

(* what xls_read_names does on an encoded globals substream *)
Lemma xls_read_names_unfold : forall show_f64 sheets gs names xtis, forallb wf_grec gs = true ->
  xls_read_names show_f64 sheets (map enc_grec gs) = Ok (names, xtis) ->
  exists raw, spec_lbls (lbls_of gs) = Ok raw /\ xtis = xtis_of gs /\
    map_o (xls_final_name show_f64 (map quote_sheet_name sheets) (xtis_of gs) (map fst raw)) raw = Ok names.
Proof.
  intros show_f64 sheets gs names xtis Hwf H. unfold xls_read_names in H.
  rewrite xls_globals_spec in H by exact Hwf.
  destruct (spec_lbls (lbls_of gs)) as [raw|c| |] eqn:E; cbn [obind fst snd app] in H; try discriminate.
  destruct (map_o _ raw) as [l|c| |] eqn:El; cbn [obind] in H; try discriminate.
  injection H as <- <-. exists raw. repeat split. exact El.
Qed.

Theorem defined_names_in_order_xls : forall show_f64 sheets gs names xtis, forallb wf_grec gs = true ->
  xls_read_names show_f64 sheets (map enc_grec gs) = Ok (names, xtis) ->
  map fst names = map lb_logical (lbls_of gs) /\ xtis = xtis_of gs.
Proof.
  intros show_f64 sheets gs names xtis Hwf H.
  destruct (xls_read_names_unfold _ _ _ Hwf H) as (raw & Er & Ex & El).
  split; [|exact Ex]. rewrite (map_o_final_fst _ _ _ _ _ El). apply spec_lbls_fst. exact Er.
Qed.

Lemma spec_lbls_nth : forall ds raw i d, spec_lbls ds = Ok raw -> nth_error ds i = Some d ->
  exists f, nth_error raw i = Some (lb_logical d, (f, lb_rgce d)).
Proof.
  induction ds as [|a t IH]; intros raw i d H Hn; [destruct i; discriminate|].
  cbn [spec_lbls] in H. destruct (parse_defined_names (lb_rgce a)) as [f|c| |]; cbn [obind] in H; try discriminate.
  destruct (spec_lbls t) as [r'|c| |] eqn:Et; cbn [obind] in H; try discriminate. injection H as <-.
  destruct i as [|i]; cbn [nth_error] in *.
  - injection Hn as <-. eauto.
  - apply (IH r' i d eq_refl Hn).
Qed.

(* the reported text of a defined name is the A1 rendering of its whole formula: for every Lbl
   record whose formula encodes a well-formed AST (against the sheets, ALL names of the file and
   the concatenated XTI table) — any grammar construct, names defined through other names
   (stored before or after it) included.  Former known class K_XLS_NAME_FORMULA, repaired by the
   commit "xls defined names other than a single 3-D reference …". *)
Theorem defined_name_text_is_render_xls : forall show_f64 sheets gs names xtis i d e,
  forallb wf_grec gs = true ->
  xls_read_names show_f64 sheets (map enc_grec gs) = Ok (names, xtis) ->
  nth_error (lbls_of gs) i = Some d -> lb_rgce d = encode_xls e ->
  N.of_nat (length (encode_xls e)) < 65536 ->
  let env := {| xe_sheets := map sheet_text sheets; xe_names := map lb_logical (lbls_of gs); xe_xtis := xtis_of gs; xe_base := None |} in
  wf_xls env e = true ->
  nth_error names i = Some (lb_logical d, render_xls show_f64 env e).
Proof.
  intros show_f64 sheets gs names xtis i d e Hwf H Hn Hr Hlen env Hwe.
  destruct (xls_read_names_unfold _ _ _ Hwf H) as (raw & Er & Ex & El).
  rewrite map_quote_sheet in El.
  destruct (spec_lbls_nth _ _ Er Hn) as [f Hraw].
  destruct (@map_o_nth _ _ _ _ _ _ _ El Hraw) as [y [Ey Hy]]. rewrite Hy. f_equal.
  unfold xls_final_name in Ey. cbn [fst snd] in Ey.
  rewrite (spec_lbls_fst _ Er), Hr in Ey.
  fold env in Ey. rewrite (@rpn_correct_xls show_f64 env e Hwe Hlen) in Ey. injection Ey as <-. reflexivity.
Qed.

Theorem name_index_stable_xls : forall show_f64 sheets gs names xtis i d, forallb wf_grec gs = true ->
  xls_read_names show_f64 sheets (map enc_grec gs) = Ok (names, xtis) ->
  nth_error (lbls_of gs) i = Some d ->
  spec_name (map fst names) (N.of_nat i + 1) = lb_logical d.
Proof.
  intros show_f64 sheets gs names xtis i d Hwf H Hn.
  destruct (defined_names_in_order_xls _ _ _ Hwf H) as [Hm _].
  unfold spec_name. replace (N.of_nat i + 1 - 1) with (N.of_nat i) by lia.
  rewrite nthN_nth_error, Hm, nth_error_map, Hn. reflexivity.
Qed.

Theorem ptgname_is_ith_record_xls : forall show_f64 sheets gs names xtis i d k,
  forallb wf_grec gs = true ->
  xls_read_names show_f64 sheets (map enc_grec gs) = Ok (names, xtis) ->
  nth_error (lbls_of gs) i = Some d -> N.of_nat i + 1 < 4294967296 ->
  xls_parse_formula show_f64 {| xe_sheets := sheets; xe_names := map fst names; xe_xtis := xtis; xe_base := None |}
    (frame_xls (encode_xls (EName k (N.of_nat i + 1)))) = Ok (lb_logical d).
Proof.
  intros show_f64 sheets gs names xtis i d k Hwf H Hn Hi.
  rewrite rpn_correct_xls.
  - unfold render_xls. cbn [render xe_names]. f_equal. eapply name_index_stable_xls; eassumption.
  - unfold wf_xls. cbn [wf xe_names].
    destruct (defined_names_in_order_xls _ _ _ Hwf H) as [Hm _].
    assert (Hlen : length (map fst names) = length (lbls_of gs)) by (rewrite Hm, map_length; reflexivity).
    assert (Hlt : (i < length (lbls_of gs))%nat) by (apply nth_error_Some; rewrite Hn; discriminate).
    rewrite Hlen.
    repeat (apply andb_true_intro; split); try apply N.leb_le; try apply N.ltb_lt; lia.
  - destruct k; cbn; lia.
Qed.

(* a 3-D token's sheet is the itabFirst-th sheet of the ixti-th XTI of the file (all EXTERNSHEET
   records concatenated) — not the ixti-th sheet.
   The table the reader hands to the decoder holds the names as formula text writes them
   ([sheet_text]: quoted when the grammar demands it; former observation G7). *)
Theorem sheet3d_through_xti_xls : forall show_f64 sheets gs names xtis i x nm, forallb wf_grec gs = true ->
  xls_read_names show_f64 sheets (map enc_grec gs) = Ok (names, xtis) ->
  nth_error (xtis_of gs) i = Some x -> snd (fst x) < 32768 ->
  spec_sheet_xls {| xe_sheets := map quote_sheet_name sheets; xe_names := nm; xe_xtis := xtis; xe_base := None |} (N.of_nat i)
  = match nthN sheets (snd (fst x)) with Some s => sheet_text s | None => lit "#REF" end.
Proof.
  intros show_f64 sheets gs names xtis i x nm Hwf H Hn Hx.
  destruct (defined_names_in_order_xls _ _ _ Hwf H) as [_ Hxt]. subst xtis.
  unfold spec_sheet_xls. cbn [xe_xtis xe_sheets]. rewrite nthN_nth_error, Hn.
  destruct x as [[a b] c]. cbn [fst snd] in *. apply N.ltb_lt in Hx. rewrite Hx.
  rewrite nthN_map. destruct (nthN sheets b); [rewrite quote_sheet_name_spec|]; reflexivity.
Qed.

(* xlsb: an XTI that points at a sheet of this workbook resolves to that sheet's formula text *)
Theorem resolve_xti_sheet_text : forall sheets first s, first < 2147483648 ->
  nthN sheets first = Some s -> resolve_xti sheets first = sheet_text s.
Proof.
  intros sheets first s Hlt Hs. unfold resolve_xti.
  assert (E1 : (first =? 4294967294) = false) by (apply N.eqb_neq; lia).
  assert (E2 : (first =? 4294967295) = false) by (apply N.eqb_neq; lia).
  assert (E3 : (first <? 2147483648) = true) by (apply N.ltb_lt; lia).
  rewrite E1, E2, E3, Hs. apply quote_sheet_name_spec.
Qed.

(* ================================================================== formula ranges ==== *)
Lemma in_map_fst_filter : forall (cs : list (pos * list N)) q,
  In q (map fst (filter nonempty_cell cs)) -> exists t, In (q, t) cs /\ t <> [].
Proof.
  intros cs q H. apply in_map_iff in H. destruct H as [[p t] [E Hin]]. cbn in E. subst p.
  apply filter_In in Hin. destruct Hin as [Hin Hne]. exists t. split; [exact Hin|].
  intros ->. discriminate.
Qed.

Lemma NoDup_map_fst_filter : forall (cs : list (pos * list N)),
  NoDup (map fst cs) -> NoDup (map fst (filter nonempty_cell cs)).
Proof.
  induction cs as [|c cs IH]; intros H; [constructor|].
  cbn [map] in H. apply NoDup_cons_iff in H. destruct H as [Hn Hd].
  cbn [filter]. destruct (nonempty_cell c); [|apply IH; exact Hd].
  cbn [map]. constructor; [|apply IH; exact Hd].
  intros Hin. apply Hn. apply in_map_iff in Hin. destruct Hin as [c' [E Hin]].
  apply filter_In in Hin. destruct Hin as [Hin _]. rewrite <- E. apply in_map. exact Hin.
Qed.

(* xlsb / xlsx (and the reading of the property for ods): every cell that stores a non-empty
   formula text holds that text at its absolute position, every other cell of the tight bounding
   box of those cells is "", nothing lies outside *)
Theorem stored_text_positions : forall (cells : list (pos * list N)),
  pre empty (OFromSparse (filter nonempty_cell cells)) -> NoDup (map fst cells) ->
  exists r, formula_range false cells = Ok r /\
    rect r = tight_bbox (map fst (filter nonempty_cell cells)) /\
    (forall p t, In (p, t) cells -> t <> [] -> get_value r p = Some t) /\
    (forall q, in_rect r q = true -> (forall t, In (q, t) cells -> t = []) -> get_value r q = Some []) /\
    (forall q, in_rect r q = false -> get_value r q = None).
Proof.
  intros cells Hpre Hnd.
  destruct (formula_positions Hpre (NoDup_map_fst_filter cells Hnd)) as (r & Hfs & Hrect & Hin & Hout & Hnone).
  exists r. split; [exact Hfs|]. split; [exact Hrect|]. split; [|split].
  - intros p t H Hne. apply Hin. apply filter_In. split; [exact H|].
    destruct t; [contradiction|reflexivity].
  - intros q Hr Hall. apply Hout; [exact Hr|].
    intros Hq. apply in_map_fst_filter in Hq. destruct Hq as [t [Hi Hne]]. apply Hne. apply Hall. exact Hi.
  - exact Hnone.
Qed.

(* ================================================================== examples / witnesses ==== *)
Definition ex_names : list name_rec :=
  [ {| nr_flags := 1 + 32; nr_chkey := 0; nr_itab := 0;          (* hidden + built-in *)
       nr_name := lit "_xlnm._FilterDatabase"; nr_rgce := [0x3b; 0; 0; 0;0;0;0; 9;0;0;0; 0;0; 2;0]; nr_tail := [0;0;0;0] |};
    {| nr_flags := 0; nr_chkey := 0; nr_itab := 4294967295;
       nr_name := lit "Rate"; nr_rgce := [0x1e; 5; 0]; nr_tail := [0;0;0;0; 255;255;255;255] |};
    {| nr_flags := 2 + 8; nr_chkey := 65; nr_itab := 4294967295;  (* function + macro, defined through Rate *)
       nr_name := [26085; 128512]; nr_rgce := [0x23; 2;0;0;0; 0x1e; 2; 0; 0x05]; nr_tail := [] |} ].

Example xlsb_names_nonvacuous :
  forallb wf_name_rec ex_names = true /\ forallb wf_xti [(0, 1, 1); (0, 4294967294, 4294967294)] = true /\
  xlsb_read_names (fun _ => []) [lit "S1"; lit "O'Neil 2"]
    ((0x0165, []) :: (0x016A, enc_externsheet [(0, 1, 1); (0, 4294967294, 4294967294)])
       :: map (fun d => (0x0027, enc_brtname d)) ex_names ++ [(0x009D, [])])
  = Ok ([lit "'O''Neil 2'"; lit "#ThisWorkbook"],
        [(lit "_xlnm._FilterDatabase", lit "'O''Neil 2'!$A$1:$C$10"); (lit "Rate", lit "5"); ([26085; 128512], lit "Rate*2")]).
Proof. vm_compute. repeat split. Qed.

Definition ex_globals : list grec :=
  [ GExt [(0, 1, 1)];
    GLbl {| lb_flags := 1 + 32; lb_chkey := 0; lb_itab := 1; lb_wide := false; lb_name := [13];   (* _FilterDatabase *)
            lb_rgce := [0x3b; 0;0; 0;0; 9;0; 0;0; 2;0] |};
    GOther 0x0042 [176; 4];
    GLbl {| lb_flags := 0; lb_chkey := 0; lb_itab := 0; lb_wide := true; lb_name := [26085; 128512];
            lb_rgce := [0x3a; 1;0; 4;0; 27;0] |};
    GExt [(0, 0, 0)] ].

Example xls_names_nonvacuous :
  forallb wf_grec ex_globals = true /\
  xls_read_names (fun _ => []) [lit "S1"; lit "My Sheet"] (map enc_grec ex_globals)
  = Ok ([(lit "_xlnm._FilterDatabase", lit "'My Sheet'!$A$1:$C$10"); ([26085; 128512], lit "S1!$AB$5")], [(0, 1, 1); (0, 0, 0)]).
Proof. vm_compute. repeat split. Qed.

(* ---------- former known class K_XLS_NAME_FORMULA (repaired): a name defined by a constant, by an
   expression over another name stored AFTER it, and a single reference ---------- *)
Example xls_name_formulas_nonvacuous :
  let gs := [ GExt [(0, 0, 0)];
              GLbl {| lb_flags := 0; lb_chkey := 0; lb_itab := 0; lb_wide := false; lb_name := lit "Seven";
                      lb_rgce := encode_xls (EInt 7) |};
              GLbl {| lb_flags := 1; lb_chkey := 0; lb_itab := 0; lb_wide := false; lb_name := lit "Twice";
                      lb_rgce := encode_xls (EBin 5 (EName CVal 3) (EInt 2)) |};
              GLbl {| lb_flags := 0; lb_chkey := 0; lb_itab := 0; lb_wide := false; lb_name := lit "Rate";
                      lb_rgce := encode_xls (ERef3d CRef 0 {| cr_row := 1; cr_col := 1; cr_row_rel := false; cr_col_rel := true |}) |};
              GLbl {| lb_flags := 0; lb_chkey := 0; lb_itab := 0; lb_wide := false; lb_name := lit "Odd";
                      lb_rgce := [0x1e; 7; 0; 0x1e; 8; 0] |} ] in
  forallb wf_grec gs = true /\
  xls_read_names (fun _ => []) [lit "S"] (map enc_grec gs)
  = Ok ([(lit "Seven", lit "7"); (lit "Twice", lit "Rate*2"); (lit "Rate", lit "S!B$2");
         (lit "Odd", lit "Unsupported ptg: 1e")], [(0, 0, 0)]).
Proof. vm_compute. repeat split. Qed.

(* ---------- PtgExp by itself: both decoders answer the empty text for it.  xls (since the commit "fix: xls
   cells of shared and array formulas …"): the sheet loop then replaces the text by the formula of the
   SHRFMLA / ARRAY record the token names (FormulaSheet.v; this lemma is the "text so far" of such a
   cell).  xlsb: nothing looks at BrtShrFmla / BrtArrFmla — known class K_PTGEXP, now xlsb only ---------- *)
Theorem refuted_ptgexp : forall show_f64 xenv benv r c, r < 65536 -> c < 65536 ->
  xls_parse_formula show_f64 xenv (frame_xls (0x01 :: le 2 r ++ le 2 c)) = Ok [] /\
  xlsb_parse_formula show_f64 benv (0x01 :: le 4 r) = Ok [].
Proof.
  intros show_f64 xenv benv r c Hr Hc. split.
  - unfold xls_parse_formula, frame_xls. cbn [length le app Nat.add u16_at skipn obind drop take N.of_nat Pos.of_succ_nat Pos.succ N.div N.modulo].
    vm_compute. reflexivity.
  - vm_compute. reflexivity.
Qed.
