# ods_5: manifest / package variants for C20 (and the mimetype gate)
import sys, zipfile, os; sys.path.insert(0, '/tmp/ag/audit2'); sys.path.insert(0, '/tmp/ag/audit2/repro')
from vhrun import vh, hx
import odslib
from odslib import write_ods, OUT, MIME, content
S = hx('S1')
BODY = '<table:table table:name="S1"><table:table-row><table:table-cell office:value-type="float" office:value="1"><text:p>1</text:p></table:table-cell></table:table-row></table:table>'
MNS = 'xmlns:manifest="urn:oasis:names:tc:opendocument:xmlns:manifest:1.0" xmlns:loext="urn:org:documentfoundation:names:experimental:office:xmlns:loext:1.0"'
ENC = ('<manifest:encryption-data manifest:checksum-type="urn:oasis:names:tc:opendocument:xmlns:manifest:1.0#sha256-1k" manifest:checksum="AAAA">'
       '<manifest:algorithm manifest:algorithm-name="http://www.w3.org/2001/04/xmlenc#aes256-cbc" manifest:initialisation-vector="AAAA"/>'
       '<manifest:key-derivation manifest:key-derivation-name="PBKDF2" manifest:key-size="32" manifest:iteration-count="100000" manifest:salt="AAAA"/>'
       '<manifest:start-key-generation manifest:start-key-generation-name="http://www.w3.org/2000/09/xmldsig#sha256" manifest:key-size="32"/></manifest:encryption-data>')
def man(entries, pre=''):
    return '<?xml version="1.0" encoding="UTF-8"?>\n<manifest:manifest %s manifest:version="1.3">%s%s</manifest:manifest>' % (MNS, pre, entries)
ROOT = '<manifest:file-entry manifest:full-path="/" manifest:version="1.3" manifest:media-type="application/vnd.oasis.opendocument.spreadsheet"/>'
def pkg(name, manifest, with_content=True, mimetype=MIME, extra=()):
    p = os.path.join(OUT, name)
    with zipfile.ZipFile(p, 'w') as z:
        if mimetype is not None:
            z.writestr(zipfile.ZipInfo('mimetype'), mimetype)
        z.writestr('META-INF/manifest.xml', manifest, zipfile.ZIP_DEFLATED)
        if with_content:
            z.writestr('content.xml', content(BODY), zipfile.ZIP_DEFLATED)
        for n, b in extra:
            z.writestr(n, b)
    return p
cases = [
 ('plain', pkg('ods_5_plain.ods', man(ROOT + '<manifest:file-entry manifest:full-path="content.xml" manifest:media-type="text/xml"/>'))),
 # classic per-file encryption (ODF 1.2): every xml stream encrypted, sizes given
 ('enc12', pkg('ods_5_enc12.ods', man(ROOT + '<manifest:file-entry manifest:full-path="content.xml" manifest:media-type="text/xml" manifest:size="1234">' + ENC + '</manifest:file-entry>'), with_content=False, extra=[('content.xml', os.urandom(200))])),
 # pretty-printed manifest, encryption on the 3rd entry only
 ('enc_pretty', pkg('ods_5_enc_pretty.ods', man('\n ' + ROOT + '\n <manifest:file-entry manifest:full-path="meta.xml" manifest:media-type="text/xml"/>\n <manifest:file-entry manifest:full-path="content.xml" manifest:media-type="text/xml" manifest:size="9">\n  ' + ENC + '\n </manifest:file-entry>\n'), with_content=False, extra=[('content.xml', os.urandom(200))])),
 # LibreOffice 24.2+ ODF 1.3/1.4 "wholesome" encryption: outer package holds only mimetype, manifest and encrypted-package
 ('wholesome', pkg('ods_5_wholesome.ods', man(ROOT + '<manifest:file-entry manifest:full-path="encrypted-package" manifest:size="5000">' + ENC.replace('aes256-cbc', 'aes256gcm').replace('PBKDF2', 'argon2id') + '</manifest:file-entry>'), with_content=False, extra=[('encrypted-package', os.urandom(500))])),
 # OpenPGP encryption: keyinfo before the entries (loext in ODF 1.2 extended, manifest: in 1.3)
 ('gpg', pkg('ods_5_gpg.ods', man(ROOT + '<manifest:file-entry manifest:full-path="content.xml" manifest:media-type="text/xml" manifest:size="9">' + ENC + '</manifest:file-entry>', pre='<loext:keyinfo><loext:KeyInfo><loext:encrypted-key><loext:encryption-method loext:PGPAlgorithm="http://www.gnupg.org/defaults/pkalgo"/><loext:PGPData><loext:PGPKeyID>AAAA</loext:PGPKeyID></loext:PGPData><loext:CipherData><loext:CipherValue>AAAA</loext:CipherValue></loext:CipherData></loext:encrypted-key></loext:KeyInfo></loext:keyinfo>'), with_content=False, extra=[('content.xml', os.urandom(200))])),
 # unencrypted, manifest mentions the word in a path only
 ('falsepos', pkg('ods_5_falsepos.ods', man(ROOT + '<manifest:file-entry manifest:full-path="content.xml" manifest:media-type="text/xml"/><manifest:file-entry manifest:full-path="encryption-data.txt" manifest:media-type="text/plain"/>'))),
 # no mimetype member (ODF 1.2 part 3, 3.3: "should")
 ('nomime', pkg('ods_5_nomime.ods', man(ROOT), mimetype=None)),
 # template mimetype
 ('template', pkg('ods_5_template.ots', man(ROOT), mimetype=MIME + '-template')),
]
for n, p in cases:
    print('%-10s %s' % (n, vh('ods', p, ['sheets', 'range ' + S])))
print('fixture    %s' % vh('ods', '/repo/tests/pass_protected.ods', ['sheets']))
