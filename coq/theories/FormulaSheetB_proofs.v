(* FormulaSheetB_proofs — C14: every cell of a shared formula of an xlsb sheet reports the shared
   expression seen from its own position (modulo the sheet: 1048576 rows, 16384 columns), every cell
   of an array formula the array's expression (former known class K_PTGEXP, xlsb half).  The model is
   FormulaSheet.xlsb_formula_loop: XlsbCellsReader::next_formula with its one-record look-ahead, as
   driven by Xlsb::worksheet_formula.  On top of Ptg_proofs.rpn_correct_xlsb (the stack-machine
   induction with a base position). *)
From Coq Require Import String.
From Calamine Require Import Prelude Range Range_spec Range_proofs Col26 Col26_proofs FtabRef Ptg Ptg_proofs
  FormulaEnv FormulaEnv_proofs FormulaPos_proofs FormulaSheet FormulaSheet_proofs.
Open Scope N_scope.

(* ------------------------------------------------------------------ the offsets are signed *)
(* a relative row stores the offset d (-1048575 <= d <= 1048575) as d mod 2^32, a relative column
   (-16383 <= d <= 16383) as d mod 2^14; [translate_b] adds the stored field modulo 1048576 / 16384,
   which is base + d modulo 1048576 / 16384 *)
Lemma translate_b_signed_row : forall (base d : Z), (0 <= base)%Z ->
  ((base + d mod 4294967296) mod 1048576 = (base + d) mod 1048576)%Z.
Proof.
  intros base d H.
  replace (d mod 4294967296)%Z with (d - 4294967296 * (d / 4294967296))%Z by (pose proof (Z.div_mod d 4294967296); lia).
  replace (base + (d - 4294967296 * (d / 4294967296)))%Z with (base + d + (- 4096 * (d / 4294967296)) * 1048576)%Z by lia.
  rewrite Z.mod_add by lia. reflexivity.
Qed.
Lemma translate_b_signed_col : forall (base d : Z), (0 <= base)%Z ->
  ((base + d mod 16384) mod 16384 = (base + d) mod 16384)%Z.
Proof. intros base d H. rewrite Z.add_mod_idemp_r by lia. reflexivity. Qed.

(* ------------------------------------------------------------------ the first token is never PtgExp *)
Lemma encode_head_b : forall e, exists b t, encode_xlsb e = b :: t /\ b <> 1.
Proof.
  unfold encode_xlsb.
  induction e using expr_ind'; cbn [encode];
    try (destruct k; cbn [cls_ptg app]; (eexists; eexists; split; [reflexivity|discriminate]));
    try (cbn [app]; eexists; eexists; split; [reflexivity|discriminate]).
  - (* EUn *) destruct IHe as (b & t & -> & Hb). cbn [app]. eauto.
  - (* EBin *) destruct IHe1 as (b & t & -> & Hb). cbn [app]. eauto.
  - (* EParen *) destruct IHe as (b & t & -> & Hb). cbn [app]. eauto.
  - (* EFunc *)
    destruct args as [|a args].
    + destruct k; cbn [flat_map cls_ptg app]; eexists; eexists; (split; [reflexivity|discriminate]).
    + inversion H as [|? ? Ha _]; subst. destruct Ha as (b & t & E & Hb).
      cbn [flat_map]. rewrite E. cbn [app]. eauto.
  - (* EFuncVar *)
    destruct args as [|a args].
    + destruct k; cbn [flat_map cls_ptg app]; eexists; eexists; (split; [reflexivity|discriminate]).
    + inversion H as [|? ? Ha _]; subst. destruct Ha as (b & t & E & Hb).
      cbn [flat_map]. rewrite E. cbn [app]. eauto.
  - (* ESum *) destruct IHe as (b & t & -> & Hb). cbn [app]. eauto.
  - (* EAttrPost *) destruct IHe as (b & t & -> & Hb). cbn [app]. eauto.
  - (* EMem *) destruct m, k; cbn [mem_ptg cls_ptg app]; eexists; eexists; (split; [reflexivity|discriminate]).
Qed.

Lemma exp_target_b_plain : forall e extra, exp_target_b (encode_xlsb e) extra = None.
Proof.
  intros e extra. destruct (encode_head_b e) as (b & t & E & Hb). rewrite E. unfold exp_target_b.
  destruct t as [|r0 [|r1 [|r2 [|r3 [|x t']]]]]; try reflexivity.
  replace (b =? 1) with false by (symmetry; apply N.eqb_neq; exact Hb). reflexivity.
Qed.

Lemma exp_target_b_exp : forall first, wf_bpos first = true ->
  exp_target_b (0x01 :: le 4 (fst first)) (le 4 4 ++ le 4 (snd first)) = Some first.
Proof.
  intros [r c] H. unfold wf_bpos in H. cbn [fst snd] in *. apply andb_prop in H. destruct H as [Hr Hc].
  apply N.ltb_lt in Hr, Hc.
  cbn [le app exp_target_b skipn]. change (1 =? 1) with true. cbn iota.
  rewrite !le4_eq by assumption. reflexivity.
Qed.

(* ------------------------------------------------------------------ framing of a CellParsedFormula *)
Section FramingB.

Lemma formula_rgce_enc : forall pre rgce extra, N.of_nat (length rgce) < 4294967296 ->
  formula_rgce (pre ++ cpf_b rgce extra) (N.of_nat (length pre)) = Ok (rgce, extra).
Proof.
  intros pre rgce extra H. unfold formula_rgce, cpf_b.
  assert (L : N.of_nat (length (pre ++ le 4 (N.of_nat (length rgce)) ++ rgce ++ extra))
              = N.of_nat (length pre) + 4 + N.of_nat (length rgce) + N.of_nat (length extra)).
  { rewrite !app_length, le_length. lia. }
  rewrite L.
  destruct (N.of_nat (length pre) + 4 + N.of_nat (length rgce) + N.of_nat (length extra) <? N.of_nat (length pre) + 4) eqn:E1;
    [apply N.ltb_lt in E1; lia|].
  rewrite Nat2N.id.
  assert (U : u32_at (pre ++ le 4 (N.of_nat (length rgce)) ++ rgce ++ extra) (length pre) = Ok (N.of_nat (length rgce))).
  { unfold u32_at. rewrite skipn_app_len. cbn [le app]. rewrite le4_eq by exact H. reflexivity. }
  rewrite U. cbn [obind].
  destruct (N.of_nat (length pre) + 4 + N.of_nat (length rgce) + N.of_nat (length extra)
            <? N.of_nat (length pre) + 4 + N.of_nat (length rgce)) eqn:E2; [apply N.ltb_lt in E2; lia|].
  replace (pre ++ le 4 (N.of_nat (length rgce)) ++ rgce ++ extra)
    with ((pre ++ le 4 (N.of_nat (length rgce))) ++ rgce ++ extra) by (rewrite <- app_assoc; reflexivity).
  replace (length pre + 4)%nat with (length (pre ++ le 4 (N.of_nat (length rgce))))
    by (rewrite app_length, le_length; reflexivity).
  rewrite skipn_app_len, Nat2N.id, firstn_app_len, skipn_app_len. reflexivity.
Qed.

Lemma bpre_start : forall c h cpf, wf_bhead h = true -> c < 4294967296 ->
  formula_start (bhead_type h) (bpre c h ++ cpf) = Ok (Some (N.of_nat (length (bpre c h)))) /\
  u32_at (bpre c h ++ cpf) 0 = Ok c /\
  (bhead_type h =? 0x0092) = false /\ (bhead_type h =? 0x0000) = false.
Proof.
  intros c h cpf Hh Hc.
  assert (U0 : forall x, u32_at ((le 4 c ++ x) ++ cpf) 0 = Ok c).
  { intros x. unfold u32_at. cbn [skipn le app]. rewrite le4_eq by exact Hc. reflexivity. }
  destruct h as [mid|mid|mid|sty units grbit]; cbn [wf_bhead] in Hh; unfold bpre, bhead_type, formula_start.
  - apply Nat.eqb_eq in Hh. repeat split; try apply U0; try reflexivity.
    change (0x0009 =? 0x0008) with false. change (0x0009 =? 0x0009) with true. cbn iota.
    rewrite app_length, le_length, Hh. reflexivity.
  - apply Nat.eqb_eq in Hh. repeat split; try apply U0; try reflexivity.
    change (0x000A =? 0x0008) with false. change (0x000A =? 0x0009) with false. change (0x000A =? 0x000A) with true.
    cbn [orb]. rewrite app_length, le_length, Hh. reflexivity.
  - apply Nat.eqb_eq in Hh. repeat split; try apply U0; try reflexivity.
    change (0x000B =? 0x0008) with false. change (0x000B =? 0x0009) with false. change (0x000B =? 0x000A) with false.
    change (0x000B =? 0x000B) with true. cbn [orb]. rewrite app_length, le_length, Hh. reflexivity.
  - apply andb_prop in Hh. destruct Hh as [Hh Hu]. apply andb_prop in Hh. destruct Hh as [Hh Hn].
    apply andb_prop in Hh. destruct Hh as [Hs Hg]. apply Nat.eqb_eq in Hs, Hg. apply N.ltb_lt in Hn.
    repeat split; try apply U0; try reflexivity.
    change (0x0008 =? 0x0008) with true. cbn iota.
    destruct sty as [|s0 [|s1 [|s2 [|s3 [|s4 sty]]]]]; try discriminate Hs.
    set (body := le 4 (N.of_nat (length units)) ++ flat_map (le 2) units ++ grbit).
    assert (Hlen : length ((le 4 c ++ [s0; s1; s2; s3] ++ body) ++ cpf) = (8 + length body + length cpf)%nat).
    { rewrite !app_length, le_length. cbn [length]. lia. }
    assert (Hb : length body = (4 + 2 * length units + 2)%nat).
    { unfold body. rewrite !app_length, le_length, flat_le2_length, Hg. lia. }
    destruct (length ((le 4 c ++ [s0; s1; s2; s3] ++ body) ++ cpf) <? 12)%nat eqn:E;
      [apply Nat.ltb_lt in E; rewrite Hlen, Hb in E; lia|].
    assert (U8 : u32_at ((le 4 c ++ [s0; s1; s2; s3] ++ body) ++ cpf) 8 = Ok (N.of_nat (length units))).
    { unfold u32_at, body. cbn [le app skipn]. rewrite le4_eq by exact Hn. reflexivity. }
    rewrite U8. cbn [obind]. f_equal. f_equal.
    rewrite app_length, le_length, app_length. cbn [length]. rewrite Hb. lia.
Qed.

End FramingB.

Section ProofsB.
Variable show_f64 : N -> list N.
Variable sheets : list (list N).
Variable names : list (list N).

Notation benv := (benv_at sheets names).
Notation rendb := (fun b => render_xlsb show_f64 (benv b)).
Notation loopb := (xlsb_formula_loop show_f64 sheets names).
Notation wfb := (wf_bitem sheets names).
Notation specb := (spec_formulas_b show_f64 sheets names).
Notation gtextb := (group_text_b show_f64 sheets names).
Notation resolveb := (resolve_b show_f64 sheets names).

Lemma parse_exp_b : forall b r, xlsb_parse_formula show_f64 (benv b) (0x01 :: le 4 r) = Ok [].
Proof. intros b r. vm_compute. reflexivity. Qed.

(* ---------- well-formedness does not depend on which cell is the base; an expression without
   PtgRefN / PtgAreaN reads the same from every cell ---------- *)
Lemma wfb_base_some : forall p q e, wf_xlsb (benv (Some p)) e = wf_xlsb (benv (Some q)) e.
Proof. reflexivity. Qed.

Lemma wfb_none_some : forall p e, wf_xlsb (benv None) e = true -> wf_xlsb (benv (Some p)) e = true.
Proof.
  intros p e H. unfold wf_xlsb, wf_xlsb_core in *. cbn [be_base benv_at be_names be_sheets] in *.
  apply andb_prop in H. destruct H as [H Hd]. rewrite Hd, andb_true_r. apply wf_allow_mono. exact H.
Qed.

Lemma renderb_array_any_base : forall p e, wf_xlsb (benv None) e = true -> rendb (Some p) e = rendb None e.
Proof.
  intros p e H. unfold render_xlsb, wf_xlsb, wf_xlsb_core in *. cbn [be_base benv_at be_names be_sheets] in *.
  apply andb_prop in H. destruct H as [H _]. eapply render_no_n. exact H.
Qed.

(* ---------- one formula cell record ---------- *)
Lemma loop_cell : forall c h rgce extra rest row shared,
  wf_bhead h = true -> c < 4294967296 -> N.of_nat (length rgce) < 4294967296 ->
  loopb (enc_bcell c h (cpf_b rgce extra) :: rest) row shared =
  do value <- xlsb_parse_formula show_f64 (benv None) rgce;
  match exp_target_b rgce extra with
  | None => do tl <- loopb rest row shared; Ok (((row, c), value) :: tl)
  | Some first =>
      match rest with
      | [] => Err FormulaEnv.E_IO
      | (t2, d2) :: rest2 =>
          if (t2 =? 0x01AB) || (t2 =? 0x01AA) then
            do re2 <- formula_rgce d2 (if t2 =? 0x01AB then 16 else 17);
            do v <- resolveb (((row, c), fst re2) :: shared) first (row, c) value;
            do tl <- loopb rest2 row (((row, c), fst re2) :: shared); Ok (((row, c), v) :: tl)
          else
            do v <- resolveb shared first (row, c) value;
            do tl <- loopb rest row shared; Ok (((row, c), v) :: tl)
      end
  end.
Proof.
  intros c h rgce extra rest row shared Hh Hc Hr.
  destruct (bpre_start c h (cpf_b rgce extra) Hh Hc) as (Hs & Hu & H92 & H00).
  unfold enc_bcell. cbn [xlsb_formula_loop]. rewrite H92, H00, Hs. cbn [obind].
  rewrite formula_rgce_enc by exact Hr. cbn [obind fst snd].
  destruct (xlsb_parse_formula show_f64 (benv None) rgce) as [value| | |]; cbn [obind]; try reflexivity.
  rewrite Hu. cbn [obind]. reflexivity.
Qed.

(* ---------- the groups ---------- *)
Definition shared_of (g : bgroups) : list (pos * list N) :=
  map (fun x => (fst x, encode_xlsb (snd (snd x)))) g.
Definition wf_group (x : pos * (bool * expr)) : bool :=
  (if fst (snd x) then wf_xlsb (benv None) (snd (snd x)) else wf_xlsb (benv (Some (fst x))) (snd (snd x))).

Lemma lookup_shared_of : forall g first,
  lookup first (shared_of g) = match glookup first g with Some gr => Some (encode_xlsb (snd gr)) | None => None end.
Proof.
  induction g as [|[k v] g IH]; intros first; [reflexivity|].
  cbn [shared_of map lookup glookup fst snd]. destruct (pos_eqb k first); [reflexivity|apply IH].
Qed.

Lemma glookup_wf : forall g first gr, forallb wf_group g = true -> glookup first g = Some gr ->
  if fst gr then wf_xlsb (benv None) (snd gr) = true else exists k, wf_xlsb (benv (Some k)) (snd gr) = true.
Proof.
  induction g as [|[k v] g IH]; intros first gr Hwf H; [discriminate|].
  cbn [forallb] in Hwf. apply andb_prop in Hwf. destruct Hwf as [Hk Hg]. cbn [glookup] in H.
  destruct (pos_eqb k first).
  - injection H as <-. unfold wf_group in Hk. cbn [fst snd] in Hk. destruct (fst v); [exact Hk|exists k; exact Hk].
  - eapply IH; eassumption.
Qed.

Lemma resolve_group : forall g first p value, forallb wf_group g = true ->
  resolveb (shared_of g) first p value
  = Ok (match glookup first g with Some gr => gtextb p gr | None => value end).
Proof.
  intros g first p value Hwf. unfold resolve_b. rewrite lookup_shared_of.
  destruct (glookup first g) as [[b e]|] eqn:G; [|reflexivity].
  pose proof (glookup_wf g first (b, e) Hwf G) as Hg. cbn [fst snd] in *. unfold group_text_b. cbn [fst snd].
  destruct b.
  - rewrite <- (renderb_array_any_base p e Hg). apply rpn_correct_xlsb. apply wfb_none_some. exact Hg.
  - destruct Hg as [k Hg]. apply rpn_correct_xlsb. rewrite (wfb_base_some p k). exact Hg.
Qed.

(* the record after a cell that is not the first of a group is never BrtShrFmla / BrtArrFmla *)
Lemma head_not_group : forall l endd rest, forallb wfb l = true ->
  exists t d tl, flat_map enc_bitem l ++ (0x0092, endd) :: rest = (t, d) :: tl /\
                 ((t =? 0x01AB) || (t =? 0x01AA)) = false.
Proof.
  intros l endd rest Hwf. destruct l as [|it l].
  - cbn [flat_map app]. eexists; eexists; eexists. split; reflexivity.
  - cbn [forallb] in Hwf. apply andb_prop in Hwf. destruct Hwf as [Hit _].
    assert (Hh : forall h, ((bhead_type h =? 0x01AB) || (bhead_type h =? 0x01AA)) = false) by (intros []; reflexivity).
    destruct it as [r tl|p h e extra|p h extra|p h rng e tl|p h rng flags e tl|p h first|t d];
      cbn [flat_map enc_bitem app]; unfold enc_bcell;
      try (eexists; eexists; eexists; split; [reflexivity|]; try apply Hh; reflexivity).
    cbn [wf_bitem] in Hit. apply negb_true_iff in Hit.
    repeat (apply orb_false_iff in Hit; destruct Hit as [Hit ?]).
    eexists; eexists; eexists. split; [reflexivity|]. apply orb_false_iff. split; assumption.
Qed.

Lemma rfx_length : forall rng, length (enc_rfx rng) = 16%nat.
Proof. intros [[[r0 r1] c0] c1]. unfold enc_rfx. rewrite !app_length, !le_length. reflexivity. Qed.

(* ---------- the loop on an encoded layout ---------- *)
Lemma loop_enc_b : forall endd rest l row g,
  forallb wfb l = true -> rows_ok row l = true -> forallb wf_group g = true ->
  loopb (flat_map enc_bitem l ++ (0x0092, endd) :: rest) row (shared_of g) = Ok (specb g l).
Proof.
  intros endd rest. induction l as [|it l IH]; intros row g Hwf Hrows Hg.
  - cbn [flat_map app xlsb_formula_loop spec_formulas_b]. reflexivity.
  - cbn [forallb] in Hwf. apply andb_prop in Hwf. destruct Hwf as [Hit Hl].
    destruct it as [r tl|p h e extra|p h extra|p h rng e tl|p h rng flags e tl|p h first|t d];
      cbn [wf_bitem] in Hit; cbn [rows_ok] in Hrows; cbn [flat_map enc_bitem spec_formulas_b].
    + (* BRow *)
      apply N.leb_le in Hit. cbn [app xlsb_formula_loop].
      change (0x0000 =? 0x0092) with false. change (0x0000 =? 0x0000) with true. cbn iota.
      destruct (length (le 4 r ++ tl) <? 4)%nat eqn:E; [apply Nat.ltb_lt in E; rewrite app_length, le_length in E; lia|].
      assert (U : u32_at (le 4 r ++ tl) 0 = Ok r).
      { unfold u32_at. cbn [skipn le app]. rewrite le4_eq by lia. reflexivity. }
      rewrite U. cbn [obind].
      destruct (0x100000 <? r) eqn:E2; [apply N.ltb_lt in E2; lia|].
      apply IH; assumption.
    + (* BPlain *)
      apply andb_prop in Hit. destruct Hit as [Hit Hsm]. apply andb_prop in Hit. destruct Hit as [Hit Hwe].
      apply andb_prop in Hit. destruct Hit as [Hp Hh]. apply andb_prop in Hrows. destruct Hrows as [Hrow Hrows].
      apply N.eqb_eq in Hrow. unfold wf_bpos in Hp. apply andb_prop in Hp. destruct Hp as [_ Hc].
      apply N.ltb_lt in Hc, Hsm. cbn [app].
      rewrite loop_cell by assumption.
      rewrite (rpn_correct_xlsb show_f64 (benv None) e Hwe). cbn [obind].
      rewrite exp_target_b_plain. rewrite (IH row g Hl Hrows Hg). cbn [obind].
      destruct p as [pr pc]. cbn [fst snd] in *. subst pr. reflexivity.
    + (* BEmpty *)
      apply andb_prop in Hit. destruct Hit as [Hp Hh]. apply andb_prop in Hrows. destruct Hrows as [Hrow Hrows].
      apply N.eqb_eq in Hrow. unfold wf_bpos in Hp. apply andb_prop in Hp. destruct Hp as [_ Hc].
      apply N.ltb_lt in Hc. cbn [app].
      rewrite loop_cell by (try assumption; cbn [length]; lia).
      cbn [xlsb_parse_formula obind exp_target_b]. rewrite (IH row g Hl Hrows Hg). cbn [obind].
      destruct p as [pr pc]. cbn [fst snd] in *. subst pr. reflexivity.
    + (* BShared *)
      apply andb_prop in Hit. destruct Hit as [Hit Hsm]. apply andb_prop in Hit. destruct Hit as [Hit Hwe].
      apply andb_prop in Hit. destruct Hit as [Hp Hh]. apply andb_prop in Hrows. destruct Hrows as [Hrow Hrows].
      apply N.eqb_eq in Hrow. pose proof Hp as Hp'. unfold wf_bpos in Hp. apply andb_prop in Hp. destruct Hp as [_ Hc].
      apply N.ltb_lt in Hc, Hsm. cbn [app]. unfold cpf_exp_b.
      rewrite loop_cell by (try assumption; cbn [length]; rewrite le_length; cbn; lia).
      rewrite parse_exp_b. cbn [obind]. rewrite exp_target_b_exp by exact Hp'.
      change (0x01AB =? 0x01AB) with true. cbn [orb]. cbn iota.
      replace 16 with (N.of_nat (length (enc_rfx rng))) by (rewrite rfx_length; reflexivity).
      rewrite formula_rgce_enc by exact Hsm. cbn [obind fst snd].
      destruct p as [pr pc]. cbn [fst snd] in *. subst pr.
      change (((row, pc), encode_xlsb e) :: shared_of g) with (shared_of (((row, pc), (false, e)) :: g)).
      assert (Hg' : forallb wf_group (((row, pc), (false, e)) :: g) = true).
      { cbn [forallb]. rewrite Hg. unfold wf_group. cbn [fst snd]. rewrite Hwe. reflexivity. }
      rewrite resolve_group by exact Hg'. cbn [glookup].
      replace (pos_eqb (row, pc) (row, pc)) with true by (symmetry; apply pos_eqb_true; reflexivity).
      cbn [obind]. rewrite (IH row _ Hl Hrows Hg'). cbn [obind]. reflexivity.
    + (* BArray *)
      apply andb_prop in Hit. destruct Hit as [Hit Hsm]. apply andb_prop in Hit. destruct Hit as [Hit Hwe].
      apply andb_prop in Hit. destruct Hit as [Hp Hh]. apply andb_prop in Hrows. destruct Hrows as [Hrow Hrows].
      apply N.eqb_eq in Hrow. pose proof Hp as Hp'. unfold wf_bpos in Hp. apply andb_prop in Hp. destruct Hp as [_ Hc].
      apply N.ltb_lt in Hc, Hsm. cbn [app]. unfold cpf_exp_b.
      rewrite loop_cell by (try assumption; cbn [length]; rewrite le_length; cbn; lia).
      rewrite parse_exp_b. cbn [obind]. rewrite exp_target_b_exp by exact Hp'.
      change (0x01AA =? 0x01AB) with false. change (0x01AA =? 0x01AA) with true. cbn [orb]. cbn iota.
      replace (enc_rfx rng ++ flags :: cpf_b (encode_xlsb e) tl)
        with ((enc_rfx rng ++ [flags]) ++ cpf_b (encode_xlsb e) tl) by (rewrite <- app_assoc; reflexivity).
      replace 17 with (N.of_nat (length (enc_rfx rng ++ [flags]))) by (rewrite app_length, rfx_length; reflexivity).
      rewrite formula_rgce_enc by exact Hsm. cbn [obind fst snd].
      destruct p as [pr pc]. cbn [fst snd] in *. subst pr.
      change (((row, pc), encode_xlsb e) :: shared_of g) with (shared_of (((row, pc), (true, e)) :: g)).
      assert (Hg' : forallb wf_group (((row, pc), (true, e)) :: g) = true).
      { cbn [forallb]. rewrite Hg. unfold wf_group. cbn [fst snd]. rewrite Hwe. reflexivity. }
      rewrite resolve_group by exact Hg'. cbn [glookup].
      replace (pos_eqb (row, pc) (row, pc)) with true by (symmetry; apply pos_eqb_true; reflexivity).
      cbn [obind]. rewrite (IH row _ Hl Hrows Hg'). cbn [obind]. reflexivity.
    + (* BMember *)
      apply andb_prop in Hit. destruct Hit as [Hit Hf]. apply andb_prop in Hit. destruct Hit as [Hp Hh].
      apply andb_prop in Hrows. destruct Hrows as [Hrow Hrows].
      apply N.eqb_eq in Hrow. unfold wf_bpos in Hp. apply andb_prop in Hp. destruct Hp as [_ Hc].
      apply N.ltb_lt in Hc. cbn [app]. unfold cpf_exp_b.
      rewrite loop_cell by (try assumption; cbn [length]; rewrite le_length; cbn; lia).
      rewrite parse_exp_b. cbn [obind]. rewrite exp_target_b_exp by exact Hf.
      destruct (head_not_group l endd rest Hl) as (t2 & d2 & tl & Heq & Hng).
      rewrite Heq. rewrite Hng. rewrite <- Heq.
      rewrite resolve_group by exact Hg. cbn [obind]. rewrite (IH row g Hl Hrows Hg). cbn [obind].
      destruct p as [pr pc]. cbn [fst snd] in *. subst pr. reflexivity.
    + (* BOther *)
      apply negb_true_iff in Hit.
      apply orb_false_iff in Hit. destruct Hit as [Hit H1aa].
      apply orb_false_iff in Hit. destruct Hit as [Hit H1ab].
      apply orb_false_iff in Hit. destruct Hit as [Hit H92].
      apply orb_false_iff in Hit. destruct Hit as [Hit H0b].
      apply orb_false_iff in Hit. destruct Hit as [Hit H0a].
      apply orb_false_iff in Hit. destruct Hit as [Hit H09].
      apply orb_false_iff in Hit. destruct Hit as [H00 H08].
      cbn [app xlsb_formula_loop]. rewrite H92, H00. unfold formula_start. rewrite H08, H09, H0a, H0b.
      cbn [orb obind]. apply IH; assumption.
Qed.

(* ================================================================== the theorems *)
(* the formula cells of a sheet, from its records: every formula cell record in stream order; a plain
   cell with the A1 text of its own tokens, every cell of a shared group with the group's expression
   translated to the cell's own position, every cell of an array group with the array's expression.
   [endd] / [rest]: the BrtEndSheetData record and whatever follows it *)
Theorem sheet_formulas_xlsb : forall l endd rest, wf_layout_b sheets names l ->
  xlsb_sheet_formulas show_f64 sheets names (flat_map enc_bitem l ++ (0x0092, endd) :: rest) = Ok (specb [] l).
Proof.
  intros l endd rest [Hwf Hrows]. unfold xlsb_sheet_formulas.
  change (@nil (pos * list N)) with (shared_of []). apply loop_enc_b; [exact Hwf|exact Hrows|reflexivity].
Qed.

(* worksheet_formula: Range::from_sparse over those cells, the ones without text dropped *)
Theorem sheet_formula_range_xlsb : forall l endd rest, wf_layout_b sheets names l ->
  xlsb_sheet_formula_range show_f64 sheets names (flat_map enc_bitem l ++ (0x0092, endd) :: rest)
  = formula_range false (specb [] l).
Proof.
  intros l endd rest Hwf. unfold xlsb_sheet_formula_range. rewrite (sheet_formulas_xlsb l endd rest Hwf). reflexivity.
Qed.

(* ---------- the groups in force after a prefix of the layout ---------- *)
Fixpoint groups_after (g : bgroups) (l : list bitem) : bgroups :=
  match l with
  | [] => g
  | BShared p _ _ e _ :: t => groups_after ((p, (false, e)) :: g) t
  | BArray p _ _ _ e _ :: t => groups_after ((p, (true, e)) :: g) t
  | _ :: t => groups_after g t
  end.

Lemma spec_app : forall l1 l2 g, specb g (l1 ++ l2) = specb g l1 ++ specb (groups_after g l1) l2.
Proof.
  induction l1 as [|it l1 IH]; intros l2 g; [reflexivity|].
  destruct it; cbn [app spec_formulas_b groups_after]; rewrite ?IH; reflexivity.
Qed.

Lemma glookup_after : forall l g first, ~ In first (flat_map first_of_b l) ->
  glookup first (groups_after g l) = glookup first g.
Proof.
  induction l as [|it l IH]; intros g first Hni; [reflexivity|].
  cbn [flat_map] in Hni.
  assert (Hl : ~ In first (flat_map first_of_b l)) by (intros Hi; apply Hni; apply in_or_app; right; exact Hi).
  destruct it as [r tl|p h e extra|p h extra|p h rng e tl|p h rng flags e tl|p h f0|t d];
    cbn [groups_after]; try (apply IH; exact Hl).
  - rewrite (IH _ _ Hl). cbn [glookup]. destruct (pos_eqb p first) eqn:E; [|reflexivity].
    apply pos_eqb_true in E. subst p. exfalso. apply Hni. cbn [first_of_b app]. left. reflexivity.
  - rewrite (IH _ _ Hl). cbn [glookup]. destruct (pos_eqb p first) eqn:E; [|reflexivity].
    apply pos_eqb_true in E. subst p. exfalso. apply Hni. cbn [first_of_b app]. left. reflexivity.
Qed.

Lemma spec_member : forall l1 l2 l3 p h first it g0,
  (match it with
   | BShared q _ _ e _ => q = first /\ g0 = (false, e)
   | BArray q _ _ _ e _ => q = first /\ g0 = (true, e)
   | _ => False end) ->
  ~ In first (flat_map first_of_b l2) ->
  In (p, gtextb p g0) (specb [] (l1 ++ it :: l2 ++ BMember p h first :: l3)) /\
  In (first, gtextb first g0) (specb [] (l1 ++ it :: l2 ++ BMember p h first :: l3)).
Proof.
  intros l1 l2 l3 p h first it g0 Hit Hni. rewrite spec_app.
  assert (Eff : pos_eqb first first = true) by (apply pos_eqb_true; reflexivity).
  destruct it as [r tl|q fh e extra|q fh extra|q fh rng e tl|q fh rng flags e tl|q fh f0|t d]; try contradiction;
    destruct Hit as [-> ->]; cbn [spec_formulas_b]; rewrite spec_app; cbn [spec_formulas_b];
    rewrite glookup_after by exact Hni; cbn [glookup]; rewrite Eff; split;
    apply in_or_app; right.
  - right. apply in_or_app. right. left. reflexivity.
  - left. reflexivity.
  - right. apply in_or_app. right. left. reflexivity.
  - left. reflexivity.
Qed.

(* a member cell of a shared group: the shared expression seen from the member's own position
   (relative references are offsets from it, modulo 1048576 rows and 16384 columns: Ptg.translate_b).
   The group's first cell and its BrtShrFmla record precede the member; no other group starts at the
   same cell in between. *)
Theorem shared_formula_members_xlsb : forall l1 l2 l3 p h first fh rng e tl endd rest r,
  wf_layout_b sheets names (l1 ++ BShared first fh rng e tl :: l2 ++ BMember p h first :: l3) ->
  ~ In first (flat_map first_of_b l2) ->
  xlsb_sheet_formulas show_f64 sheets names
    (flat_map enc_bitem (l1 ++ BShared first fh rng e tl :: l2 ++ BMember p h first :: l3) ++ (0x0092, endd) :: rest) = Ok r ->
  In (p, rendb (Some p) e) r /\ In (first, rendb (Some first) e) r.
Proof.
  intros l1 l2 l3 p h first fh rng e tl endd rest r Hwf Hni Hr.
  rewrite (sheet_formulas_xlsb _ endd rest Hwf) in Hr. injection Hr as <-.
  apply (spec_member l1 l2 l3 p h first (BShared first fh rng e tl) (false, e)); [split; reflexivity|exact Hni].
Qed.

(* every cell of an array formula: the array's expression, the same text whatever the cell *)
Theorem array_formula_members_xlsb : forall l1 l2 l3 p h first fh rng flags e tl endd rest r,
  wf_layout_b sheets names (l1 ++ BArray first fh rng flags e tl :: l2 ++ BMember p h first :: l3) ->
  ~ In first (flat_map first_of_b l2) ->
  xlsb_sheet_formulas show_f64 sheets names
    (flat_map enc_bitem (l1 ++ BArray first fh rng flags e tl :: l2 ++ BMember p h first :: l3) ++ (0x0092, endd) :: rest) = Ok r ->
  In (p, rendb None e) r /\ In (first, rendb None e) r.
Proof.
  intros l1 l2 l3 p h first fh rng flags e tl endd rest r Hwf Hni Hr.
  rewrite (sheet_formulas_xlsb _ endd rest Hwf) in Hr. injection Hr as <-.
  apply (spec_member l1 l2 l3 p h first (BArray first fh rng flags e tl) (true, e)); [split; reflexivity|exact Hni].
Qed.

(* end to end: worksheet_formula of a sheet whose cells come in ascending order (the precondition of
   Range::from_sparse) holds, at the position of every member cell of a shared group, the group's
   expression translated to that position *)
Theorem worksheet_formula_members_xlsb : forall l1 l2 l3 p h first fh rng e tl endd rest,
  let l := l1 ++ BShared first fh rng e tl :: l2 ++ BMember p h first :: l3 in
  wf_layout_b sheets names l ->
  ~ In first (flat_map first_of_b l2) ->
  pre empty (OFromSparse (filter nonempty_cell (specb [] l))) -> NoDup (map fst (specb [] l)) ->
  rendb (Some p) e <> [] ->
  exists r, xlsb_sheet_formula_range show_f64 sheets names (flat_map enc_bitem l ++ (0x0092, endd) :: rest) = Ok r /\
            get_value r p = Some (rendb (Some p) e).
Proof.
  intros l1 l2 l3 p h first fh rng e tl endd rest l Hwf Hni Hpre Hnd Hne.
  rewrite (sheet_formula_range_xlsb l endd rest Hwf).
  destruct (stored_text_positions (specb [] l) Hpre Hnd) as (r & Hr & _ & Hin & _).
  exists r. split; [exact Hr|]. apply Hin; [|exact Hne].
  apply (spec_member l1 l2 l3 p h first (BShared first fh rng e tl) (false, e)); [split; reflexivity|exact Hni].
Qed.

End ProofsB.

(* ================================================================== non-vacuity *)
Definition ex_bnum : bhead := HNum (repeat 0 14).
Definition ex_shared_layout_b : list bitem :=
  let rel r c := {| cr_row := r; cr_col := c; cr_row_rel := true; cr_col_rel := true |} in
  [ BRow 0 [0; 0; 0; 0];
    (* D1:E1 share =SUM(<row -1>:<col +1>$2): the row offset -1 (stored FF FF FF FF) wraps to row 1048576 *)
    BShared (0, 3) ex_bnum (0, 0, 3, 4)
      (ESum (EAreaN CRef (rel 4294967295 0) {| cr_row := 1; cr_col := 1; cr_row_rel := false; cr_col_rel := true |})) [0; 0; 0; 0];
    BMember (0, 4) (HBool (repeat 0 7)) (0, 3);
    BRow 1 [];
    (* B2:B4 share =A2*2+$C$1 (row offset 0, column offset -1 stored as 0x3FFF); the rfx is a larger box *)
    BShared (1, 1) (HStr [0; 0; 0; 0] [120; 121] [0; 0]) (0, 5, 0, 2)
      (EBin 3 (EBin 5 (ERefN CVal (rel 0 16383)) (EInt 2))
              (ERef CVal {| cr_row := 0; cr_col := 2; cr_row_rel := false; cr_col_rel := false |})) [];
    BOther 0x0005 [2; 0; 0; 0; 0; 0; 0; 0; 0; 0; 0; 0; 0; 0; 0; 0];
    BRow 2 [];
    BMember (2, 1) ex_bnum (1, 1);
    BPlain (2, 2) (HErr (repeat 0 7)) (EInt 7) [0; 0; 0; 0];
    BRow 3 [];
    BMember (3, 1) ex_bnum (1, 1);
    BMember (3, 2) ex_bnum (9, 9);                 (* names a cell that starts no group: no text *)
    BEmpty (3, 3) ex_bnum [];
    BRow 5 [];
    (* {=SUM(A1:B2)} over A6:B7 *)
    BArray (5, 0) ex_bnum (5, 6, 0, 1) 1 (ESum (EArea CRef (rel 0 0) (rel 1 1))) [0; 0; 0; 0];
    BMember (5, 1) ex_bnum (5, 0);
    BRow 6 [];
    BMember (6, 0) ex_bnum (5, 0);
    BMember (6, 1) ex_bnum (5, 0) ].
(* the far corner of the sheet: XFC1048576 and XFD1048576 share =<row +1, col +1>, which wraps to
   XFD1 / to A1 *)
Definition ex_corner_layout_b : list bitem :=
  [ BRow 1048575 [];
    BShared (1048575, 16382) ex_bnum (1048575, 1048575, 16382, 16383)
      (ERefN CRef {| cr_row := 1; cr_col := 1; cr_row_rel := true; cr_col_rel := true |}) [];
    BMember (1048575, 16383) ex_bnum (1048575, 16382) ].

Example shared_formula_nonvacuous_xlsb :
  wf_layout_b [] [] ex_shared_layout_b /\
  xlsb_sheet_formulas (fun _ => []) [] [] (flat_map enc_bitem ex_shared_layout_b ++ [(0x0092, []); (0x0082, [])])
  = Ok [((0, 3), lit "SUM(D1048576:E$2)"); ((0, 4), lit "SUM(E1048576:F$2)");
        ((1, 1), lit "A2*2+$C$1"); ((2, 1), lit "A3*2+$C$1"); ((2, 2), lit "7"); ((3, 1), lit "A4*2+$C$1");
        ((3, 2), []); ((3, 3), []);
        ((5, 0), lit "SUM(A1:B2)"); ((5, 1), lit "SUM(A1:B2)"); ((6, 0), lit "SUM(A1:B2)"); ((6, 1), lit "SUM(A1:B2)")] /\
  wf_layout_b [] [] ex_corner_layout_b /\
  xlsb_sheet_formulas (fun _ => []) [] [] (flat_map enc_bitem ex_corner_layout_b ++ [(0x0092, [])])
  = Ok [((1048575, 16382), lit "XFD1"); ((1048575, 16383), lit "A1")] /\
  (exists r, xlsb_sheet_formula_range (fun _ => []) [] []
               (flat_map enc_bitem ex_shared_layout_b ++ [(0x0092, []); (0x0082, [])]) = Ok r /\
             get_value r (3, 1) = Some (lit "A4*2+$C$1") /\ get_value r (3, 2) = Some []).
Proof.
  split; [split|split; [|split; [split|split]]].
  - vm_compute. reflexivity.
  - vm_compute. reflexivity.
  - vm_compute. reflexivity.
  - vm_compute. reflexivity.
  - vm_compute. reflexivity.
  - vm_compute. reflexivity.
  - eexists. split; [vm_compute; reflexivity|]. split; vm_compute; reflexivity.
Qed.
