(* Totality_proofs — allocation bound of the sector-chain walk (Cfb.get_chain, the model of the
   hardened Sectors::get_chain): whatever the allocation table, the file and the declared length,
   the stream handed back and the capacity reserved for it are bounded by what the table can
   address.  Termination / no-panic of the same function is Cfb_proofs.chain_total (C13). *)
From Calamine Require Import Prelude Utf16 Cfb Cfb_proofs Totality.
Open Scope N_scope.

Lemma get_slice_bound : forall s id r sl s' r',
  get s id r = Ok (sl, s', r') -> lenN sl <= ssize s /\ ssize s' = ssize s.
Proof.
  intros s id r sl s' r'. unfold get.
  destruct (lenN (sdata s) <? id * ssize s + ssize s); cbn beta iota zeta;
    match goal with |- context [if ?c then _ else _] => destruct c eqn:Ec end; try discriminate;
    intro E; injection E as <- <- _; cbn [ssize]; (split; [|reflexivity]);
    unfold takeN; rewrite lenN_length, firstn_length; apply N.ltb_ge in Ec; lia.
Qed.

Lemma get_chain_loop_bound : forall fats remaining s id r c s' r',
  get_chain_loop remaining s id fats r = Ok (c, s', r') ->
  lenN c <= N.of_nat remaining * ssize s /\ ssize s' = ssize s.
Proof.
  intros fats. induction remaining as [|k IH]; intros s id r c s' r'; cbn [get_chain_loop];
    destruct (id =? ENDOFCHAIN).
  - intro E. injection E as <- <- _. cbn. split; [lia|reflexivity].
  - discriminate.
  - intro E. injection E as <- <- _. rewrite lenN_length. cbn [length]. split; [lia|reflexivity].
  - destruct (get s id r) as [[[sl s1] r1]|e| |] eqn:Eg; cbn [obind]; try discriminate.
    apply get_slice_bound in Eg as [Hsl Hs1].
    destruct (nth_error fats (N.to_nat id)) as [nx|]; [|discriminate].
    destruct (get_chain_loop k s1 nx fats r1) as [[[rest s2] r2]|e| |] eqn:El; cbn [obind]; try discriminate.
    apply IH in El as [Hr Hs2]. intro E. injection E as <- <- _.
    rewrite lenN_length, app_length. rewrite !lenN_length in *. split; [|congruence].
    rewrite Hs1 in Hr. lia.
Qed.

Theorem get_chain_alloc_bound : forall s id fats r len c s' r',
  get_chain s id fats r len = Ok (c, s', r') ->
  lenN c <= N.of_nat (length fats) * ssize s /\
  (0 < len -> lenN c <= len) /\
  chain_capacity s fats len <= N.of_nat (length fats) * ssize s.
Proof.
  intros s id fats r len c s' r'. unfold get_chain.
  destruct (get_chain_loop (length fats) s id fats r) as [[[c0 s1] r1]|e| |] eqn:El; cbn [obind]; try discriminate.
  apply get_chain_loop_bound in El as [Hb _].
  intro E. injection E as <- <- _. unfold truncate, takeN.
  split; [|split].
  - destruct ((0 <? len) && (len <? lenN c0)); [|exact Hb].
    rewrite lenN_length, firstn_length. rewrite lenN_length in Hb. lia.
  - intro Hl. destruct (N.ltb_spec 0 len) as [_|?]; [|lia]. cbn [andb].
    destruct (N.ltb_spec len (lenN c0)) as [Hlt|Hge]; [|exact Hge].
    rewrite lenN_length, firstn_length. lia.
  - unfold chain_capacity. destruct (0 <? len); lia.
Qed.

(* the capacity alone, for every declared length (a 64-bit field of a directory entry included) *)
Theorem chain_capacity_bound : forall s fats len,
  chain_capacity s fats len <= N.of_nat (length fats) * ssize s /\ chain_capacity s fats len <= len.
Proof.
  intros s fats len. unfold chain_capacity. destruct (N.ltb_spec 0 len); lia.
Qed.
